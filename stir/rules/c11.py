"""C11 - formatted output equals the specified rendering of literals, fields and padding.

Decided over the whole flag space, symbolically in the values (what the digits are is C12, what the parser accepts is C10):

R11.1 numeric layout: for every (sign of the value, always_signed, class_prefix, digit_class, numeric_pad, alignment, pad, width,
      number of digits) the sequence of units handed to the writer by format_numeric_string is the rendering of the property:
      sign ('-', or '+' when requested), radix prefix (0x 0X 0b 0, none for zero), digits; extended - never truncated - to the minimum
      width with max(0, width - digits - |sign| - |prefix|) pad units placed between sign/prefix and digits (zero-pad flag), in front
      (right / default) or behind (left).  The comparison is on the emitted unit sequence, however it is split into writer calls,
      so what pad_size subtracts and what format_numeric_prefix emits are checked against each other.
R11.2 text layout: format_string emits the first min(size, precision) units of the text and max(0, width - that) pad units on the side
      given by the alignment (default: the caller's default), for every size, precision and width.
R11.3 radix / letter case handed to the digit generator per digit class (x:16 lower, X:16 upper, o:8, b:2, d/default:10); the layout
      routine is told zero / negative / positive exactly as the value is.
R11.4 argument selection: a field without &N takes the sequential counter and advances it; &N selects entry N-1 and leaves the counter
      alone.
"""
import re

from ..interp import Interp, Hooks, Budget
from ..state import State, Obj, IntV, PtrV, NULL, MAXLEN
from ..terms import Lin, ZERO
from . import own
from .common import short, fn_loc, robust, congruent

UNSIGNED_CHAR = [False]

LEVEL = 'other'
EXPLANATION = ('abstract interpretation of the layout routines with every format_spec field, the sign class, the digit count and the '
               'text size symbolic; on each path the emitted unit sequence (literals, pad runs, text ranges) is compared with the '
               'rendering the property prescribes, mismatches come with witnesses')


class WriterHooks(Hooks):
    max_depth = 10
    max_paths = 20000
    unroll = 0
    widen_on_entry = True

    def __init__(self, m, stop=None):
        self.m = m
        self.stop = stop

    def call(self, I, st, inst, name, args):
        if name is None:
            fty = inst.d.get('fty', '')
            if 'format_writer' in fty:
                if '(%"class.ST::format_writer"*, i8*, i64)' in fty:
                    n = I.as_u(st, args[2]) if isinstance(args[2], IntV) else None
                    st.ev('emit', inst, args[1], n)
                else:
                    st.ev('emit-char', inst, args[1], I.as_u(st, args[2]) if isinstance(args[2], IntV) else None)
                return [(st, args[0])]
            return None
        if self.stop is not None:
            return self.stop(I, st, inst, self.m.dem(name), args)
        return None


def spec_scene(I, st, m):
    """A format_spec whose every field is a symbol over the range of its type (enums over their enumerators)."""
    lay = m.structs.get('struct.ST::format_spec')
    if not lay:
        return None
    names = ['minimum_length', 'precision', 'arg_index', 'alignment', 'digit_class', 'float_class', 'pad', 'always_signed', 'class_prefix', 'numeric_pad']
    if len(lay['fields']) != len(names):
        return None
    o = Obj('ext', Lin.const(lay['size']))
    st.objs['SPEC'] = o
    f = {}
    en = m.enums
    for nm, fld in zip(names, lay['fields']):
        off, ty = fld[1], fld[0]
        if nm in ('minimum_length', 'precision', 'arg_index'):
            v = I.fresh_int(st, 32, nm, signed=True)
            sz = 4
        elif nm in ('alignment', 'digit_class', 'float_class'):
            e = en.get('ST::%s_t' % nm) or {}
            v = I.fresh_int(st, 32, nm, lo=min(e.values()) if e else 0, hi=max(e.values()) if e else 6)
            sz = 4
        elif nm == 'pad':
            v = I.fresh_int(st, 8, nm)
            sz = 1
        else:
            v = I.fresh_int(st, 8, nm, hi=1)
            sz = 1
        o.cells[off] = (sz, v)
        f[nm] = v
    return f


def enum(m, ty, name):
    e = m.enums.get(ty) or {}
    for k, v in e.items():
        if k == name or k.endswith('::' + name):
            return v
    return None


def single(st, lin):
    lo, hi = st.range(lin)
    return lo if lo == hi else None


def literal_bytes(I, st, p, n):
    """bytes of a constant global text range, or None"""
    if not isinstance(p, PtrV) or p.obj is None or not p.obj.startswith('G:'):
        return None
    k = single(st, n)
    o0 = single(st, p.off)
    if k is None or o0 is None or k > 16:
        return None
    out = []
    for j in range(k):
        v = I.load(st, None, PtrV(p.obj, Lin.const(o0 + j)), 'i8', 1)
        if not isinstance(v, IntV) or v.lin.t:
            return None
        out.append(v.lin.c & 0xFF)
    return out


def rendering(I, st, events):
    """Normalised unit sequence of a path: ('lit', [bytes]) | ('run', unit term, count term) | ('text', ptr, count term).
    Runs / ranges of provably zero length are dropped, single known units join literals."""
    out = []

    def lit(bs):
        if out and out[-1][0] == 'lit':
            out[-1] = ('lit', out[-1][1] + bs)
        else:
            out.append(('lit', list(bs)))
    for e in events:
        if e[0] == 'emit':
            p, n = e[2], e[3]
            if n is None:
                out.append(('?', e))
                continue
            if st.is_eq0(n) is True:
                continue
            bs = literal_bytes(I, st, p, n)
            if bs is not None:
                lit(bs)
            else:
                out.append(('text', p, n))
        elif e[0] == 'emit-char':
            ch, cnt = e[2], e[3]
            if cnt is None or not isinstance(ch, IntV):
                out.append(('?', e))
                continue
            if st.is_eq0(cnt) is True:
                continue
            c1 = single(st, cnt)
            chv = single(st, ch.lin)
            if c1 is not None and chv is not None and c1 <= 4:
                lit([chv & 0xFF] * c1)
            else:
                out.append(('run', ch.lin, cnt))
    return out


def same_seq(st, got, exp):
    """None if equal, else a description; terms are compared by the path's facts."""
    if len(got) != len(exp):
        return 'emits %s, expected %s' % (show(got), show(exp))
    for g, x in zip(got, exp):
        if g[0] != x[0]:
            return 'emits %s, expected %s' % (show(got), show(exp))
        if g[0] == 'lit':
            if g[1] != x[1]:
                return 'emits %s, expected %s' % (show(got), show(exp))
        elif g[0] == 'run':
            if st.is_eq0(unit8(g[1]) - unit8(x[1])) is not True and st.is_eq0(g[1] - x[1]) is not True:
                return ('pad', g[1], x[1])
            if st.is_eq0(g[2] - x[2]) is not True:
                return ('count', g[2], x[2])
        elif g[0] == 'text':
            if not (isinstance(g[1], PtrV) and g[1].obj == x[1].obj and st.is_eq0(g[1].off - x[1].off) is True):
                return 'emits text from %r, expected %r' % (g[1], x[1])
            if st.is_eq0(g[2] - x[2]) is not True:
                return ('count', g[2], x[2])
        else:
            return 'emission not tracked'
    return None


def unit8(l):
    return l


def show(seq):
    parts = []
    for s in seq:
        if s[0] == 'lit':
            parts.append(repr(bytes(s[1]).decode('latin-1')))
        elif s[0] == 'run':
            parts.append('pad(%r x %r)' % (s[1], s[2]))
        elif s[0] == 'text':
            parts.append('text[%r]' % (s[2],))
        else:
            parts.append('?')
    return ' + '.join(parts) if parts else '(nothing)'


def judge_seq(st, got, exp, probs, und, ctx, wit=None):
    r = same_seq(st, got, exp)
    if r is None:
        return
    if isinstance(r, tuple):
        kind, g, x = r
        d = g - x
        env = st.find_model([d], lambda v: v[0] != 0) if robust([d]) else None
        what = 'pads with unit %r, expected %r' % (g, x) if kind == 'pad' else 'emits %r units, expected %r' % (g, x)
        if env is not None or (st.is_eq0(d) is False and robust([d])):
            probs.append('%s: %s%s' % (ctx, what, '; witness ' + own.fmt_env(env) if env else ''))
        else:
            und.append('%s: %s (not decided)' % (ctx, what))
    else:
        # structural difference: a witness of the path shows it is a real case
        env = st.find_model(wit or [], lambda v: True) if wit else None
        if env is not None or not wit:
            probs.append('%s: %s%s' % (ctx, r, '; witness ' + own.fmt_env(env) if env else ''))
        else:
            und.append('%s: %s (path not confirmed by a witness)' % (ctx, r))


def padch_expected(st, f):
    p = f['pad'].lin
    if st.is_eq0(p) is True:
        return Lin.const(32)
    lo, hi = st.range(p)
    if lo > 0 or hi < 0 or any(x == p or x == -p for x in st.nefacts):
        return p
    return None


def huge_limit(run):
    """ST_HUGE_BUFFER_SIZE: every ST::string constructor and conversion asserts its text is shorter, so the texts a format call can be
    given or can return are below it (longer ones end in the library's own contract assertion, not in a rendering)."""
    import os
    from ..frontend import REPO
    path = os.path.join(REPO, 'include', 'st_utf_conv.h')
    mt = None
    try:
        mt = re.search(r'^#define\s+ST_HUGE_BUFFER_SIZE\s+(0x[0-9a-fA-F]+|\d+)', open(path).read(), re.M)
    except IOError:
        pass
    run.need(mt is not None, 'ST_HUGE_BUFFER_SIZE not found in st_utf_conv.h')
    return int(mt.group(1), 0)


def numeric_layout(run, m, F, E):
    f = None
    for name in F.lib:
        if m.func(name).dem.startswith('_ST_PRIVATE::format_numeric_string(ST::format_spec const&, ST::format_writer&, char const*, unsigned long, _ST_PRIVATE::numeric_type)'):
            f = m.func(name)
    run.need(f is not None, 'format_numeric_string not found')
    DC = dict((k, enum(m, 'ST::digit_class_t', 'digit_' + k)) for k in ('default', 'dec', 'hex', 'hex_upper', 'oct', 'bin', 'char'))
    AL = dict((k, enum(m, 'ST::alignment_t', 'align_' + k)) for k in ('default', 'left', 'right'))
    NT = dict((k, enum(m, '_ST_PRIVATE::numeric_type', 'numeric_' + k)) for k in ('positive', 'negative', 'zero'))
    run.need(None not in DC.values() and None not in AL.values() and None not in NT.values(), 'enumerators of digit_class_t / alignment_t / numeric_type not in debug info')
    I = Interp(m, F, E, WriterHooks(m))
    st = State()
    fl = spec_scene(I, st, m)
    run.need(fl is not None, 'layout of ST::format_spec not recognised')
    st.rng['ndigits'] = (0, MAXLEN)
    st.objs['DIGITS'] = Obj('ext', Lin.atom('ndigits') + 1)
    nd = Lin.atom('ndigits')
    nt = I.fresh_int(st, 32, 'ntype', lo=min(NT.values()), hi=max(NT.values()))
    w = I.fresh_ptr(st, 'writer')
    outs = I.run(I.start(f, [PtrV('SPEC'), w, PtrV('DIGITS'), IntV(64, nd, 'u'), nt], st))
    probs, und = [], []
    cases = set()
    npaths = 0
    for o in outs:
        if o.kind == 'backedge':
            continue
        s2 = o.st
        if o.kind != 'ret':
            if o.kind == 'abort':
                probs.append('aborts')
            continue
        npaths += 1
        ntv = single(s2, nt.lin)
        sgn = single(s2, fl['always_signed'].lin)
        cp = single(s2, fl['class_prefix'].lin)
        dc = single(s2, fl['digit_class'].lin)
        npad = single(s2, fl['numeric_pad'].lin)
        al = single(s2, fl['alignment'].lin)
        ctx = 'ntype=%s always_signed=%s class_prefix=%s digit_class=%s numeric_pad=%s alignment=%s' % (ntv, sgn, cp, dc, npad, al)
        # sign
        lead = []
        if ntv is None:
            # the path did not need to distinguish positive from zero: split
            neg = s2.is_eq0(nt.lin - NT['negative'])
            if neg is None:
                und.append('path does not decide the sign class')
                continue
        neg = s2.is_eq0(nt.lin - NT['negative'])
        zero = s2.is_eq0(nt.lin - NT['zero'])
        if neg is True:
            lead.append(ord('-'))
        elif neg is False:
            if sgn is None:
                und.append('%s: always_signed not decided' % ctx)
                continue
            if sgn:
                lead.append(ord('+'))
        else:
            und.append('%s: sign class not decided' % ctx)
            continue
        # prefix
        if zero is None and cp != 0:
            und.append('%s: zero / non-zero not decided' % ctx)
            continue
        if zero is False and cp is None:
            und.append('%s: class_prefix not decided' % ctx)
            continue
        if cp and zero is False:
            if True:
                if dc is None:
                    # classes without a prefix need not be distinguished
                    lo, hi = s2.range(fl['digit_class'].lin)
                    poss = [v for v in range(lo, hi + 1) if not any(x == fl['digit_class'].lin - v or x == -(fl['digit_class'].lin - v) for x in s2.nefacts)]
                    if any(v in (DC['hex'], DC['hex_upper'], DC['bin'], DC['oct']) for v in poss):
                        und.append('%s: digit class not decided on a path that may need a prefix' % ctx)
                        continue
                elif dc == DC['hex']:
                    lead += [ord('0'), ord('x')]
                elif dc == DC['hex_upper']:
                    lead += [ord('0'), ord('X')]
                elif dc == DC['bin']:
                    lead += [ord('0'), ord('b')]
                elif dc == DC['oct']:
                    lead += [ord('0')]
        P = fl['minimum_length'].lin - nd - len(lead)
        pos = s2.is_ge0(P - 1)
        if pos is None:
            # the code did not test whether the field is wider than its content on this path: both sub-cases are judged
            subs = []
            for want_pos in (True, False):
                s3 = s2.clone()
                if s3.assume_ge0(P - 1 if want_pos else -P):
                    subs.append((s3, want_pos))
        else:
            subs = [(s2, pos)]
        for (s2, pos) in subs:
          pad = []
          if True:
            if pos:
                pc = padch_expected(s2, fl)
                if pc is None:
                    und.append('%s: pad unit not decided' % ctx)
                    continue
                pad = [('run', pc, P)]
            digits = [('text', PtrV('DIGITS'), nd)]
            leadseq = [('lit', lead)] if lead else []
            if npad is None or (not npad and al is None and pos):
                if pos:
                    und.append('%s: layout branch not decided' % ctx)
                    continue
                npad, al = 1, AL['right']
            if npad:
                exp = leadseq + pad + digits
                layout = 'zero-pad'
            elif al == AL['left']:
                exp = leadseq + digits + pad
                layout = 'left'
            else:
                exp = pad + leadseq + digits
                layout = 'right'
            exp = [x for x in exp if not (x[0] == 'text' and s2.is_eq0(x[2]) is True)]
            got = rendering(I, s2, s2.events)
            cases.add((layout, tuple(lead), bool(pos)))
            judge_seq(s2, got, exp, probs, und, '%s (%s layout)' % (ctx, layout), wit=[fl['minimum_length'].lin, nd])
    if len(cases) < 20:
        und.append('only %d (layout, sign/prefix, padded?) cases explored' % len(cases))
    run.ob('R11.1', short(f.dem), False if probs else (None if und else True), probs[0] if probs else (und[0] if und else
           'emitted sequence = sign, prefix, digits with max(0, width - digits - sign - prefix) pad units placed per layout, on all %d paths (%d cases)' % (npaths, len(cases))),
           loc=fn_loc(f))
    run.counts['numeric layout paths'] = npaths
    run.counts['numeric layout cases'] = len(cases)
    return len(cases)


def text_layout(run, m, F, E):
    f = None
    for name in F.lib:
        if m.func(name).dem.startswith('ST::format_string(ST::format_spec const&, ST::format_writer&, char const*, unsigned long, ST::alignment_t)'):
            f = m.func(name)
    run.need(f is not None, 'format_string not found')
    AL = dict((k, enum(m, 'ST::alignment_t', 'align_' + k)) for k in ('default', 'left', 'right'))
    run.need(None not in AL.values(), 'enumerators of alignment_t not in debug info')
    I = Interp(m, F, E, WriterHooks(m))
    st = State()
    fl = spec_scene(I, st, m)
    run.need(fl is not None, 'layout of ST::format_spec not recognised')
    st.rng['tsize'] = (0, huge_limit(run) - 1)
    st.objs['TEXT'] = Obj('ext', Lin.atom('tsize') + 1)
    ts = Lin.atom('tsize')
    da = I.fresh_int(st, 32, 'default_alignment', lo=min(AL.values()), hi=max(AL.values()))
    w = I.fresh_ptr(st, 'writer')
    outs = I.run(I.start(f, [PtrV('SPEC'), w, PtrV('TEXT'), IntV(64, ts, 'u'), da], st))
    probs, und = [], []
    cases = set()
    npaths = 0
    prec = fl['precision'].lin
    width = fl['minimum_length'].lin
    for o in outs:
        if o.kind == 'backedge':
            continue
        s2 = o.st
        if o.kind != 'ret':
            if o.kind == 'abort':
                probs.append('aborts')
            continue
        npaths += 1
        # the paths of the routine need not split exactly where the oracle does: split here
        for cutcase in ('whole', 'cut'):
            s3 = s2.clone()
            if cutcase == 'cut':
                if not (s3.assume_ge0(prec) and s3.assume_ge0(ts - prec - 1)):
                    continue
                cut = prec
            else:
                # precision < 0 or size <= precision
                subs = []
                a = s3.clone()
                if a.assume_ge0(-prec - 1):
                    subs.append(a)
                b = s3.clone()
                if b.assume_ge0(prec) and b.assume_ge0(prec - ts):
                    subs.append(b)
                cut = ts
            for s4 in ([s3] if cutcase == 'cut' else subs):
                for padcase in ('pad', 'nopad'):
                    s5 = s4.clone()
                    P = width - cut
                    if padcase == 'pad':
                        if not s5.assume_ge0(P - 1):
                            continue
                    else:
                        if not s5.assume_ge0(-P):
                            continue
                    text = [('text', PtrV('TEXT'), cut)] if s5.is_eq0(cut) is not True else []
                    if padcase != 'pad':
                        got = rendering(I, s5, s5.events)
                        cases.add((cutcase, padcase, '-'))
                        judge_seq(s5, got, text, probs, und, 'text %s, not padded, alignment -' % ('cut to the precision' if cutcase == 'cut' else 'whole'), wit=[width, ts, prec])
                        continue
                    # the side is decided by the alignment field and, for align_default, by the default the caller passed: a path of
                    # the routine that does not split on them (because it decided the side from something else) is split here
                    subcases = [s5]
                    for term in (fl['alignment'].lin, da.lin):
                        nxt = []
                        for sx in subcases:
                            if single(sx, term) is not None:
                                nxt.append(sx)
                                continue
                            for v_ in sorted(set(AL.values())):
                                sy = sx.clone()
                                if sy.assume_eq0(term - v_):
                                    nxt.append(sy)
                        subcases = nxt
                    for s6 in subcases:
                        pc = padch_expected(s6, fl)
                        if pc is None:
                            und.append('pad unit not decided')
                            continue
                        al = single(s6, fl['alignment'].lin)
                        if al is None:
                            und.append('alignment not decided on a padded path')
                            continue
                        eff = fl['alignment'].lin if al != AL['default'] else da.lin
                        isr = s6.is_eq0(eff - AL['right'])
                        if isr is None:
                            und.append('effective alignment not decided on a padded path')
                            continue
                        pad = [('run', pc, P)]
                        side = 'right' if isr else 'left'
                        cases.add((cutcase, padcase, side))
                        # judged apart for an empty and a non-empty emitted text, so that a witness of a wrong side is a rendering
                        # in which the side shows (with nothing emitted from the text both orders are the same output)
                        for empty in (False, True):
                            s7 = s6.clone()
                            if not (s7.assume_eq0(cut) if empty else s7.assume_ge0(cut - 1)):
                                continue
                            tx = [] if empty else [('text', PtrV('TEXT'), cut)]
                            exp = pad + tx if isr else tx + pad
                            got = rendering(I, s7, s7.events)
                            judge_seq(s7, got, exp, probs, und, 'text %s, padded, alignment %s' % ('cut to the precision' if cutcase == 'cut' else 'whole', side),
                                      wit=[width, ts, prec, fl['alignment'].lin, da.lin] + ([fl['numeric_pad'].lin] if 'numeric_pad' in fl else []))
    if len(cases) < 6:
        und.append('only %d (cut, padded, side) cases explored' % len(cases))
    run.ob('R11.2', short(f.dem), False if probs else (None if und else True), probs[0] if probs else (und[0] if und else
           'emits min(size, precision) units of the text and max(0, width - that) pad units on the aligned side (%d paths, %d cases)' % (npaths, len(cases))),
           loc=fn_loc(f))
    run.counts['text layout cases'] = len(cases)
    return len(cases)


def numeric_fronts(run, m, F, E):
    DC = dict((k, enum(m, 'ST::digit_class_t', 'digit_' + k)) for k in ('default', 'dec', 'hex', 'hex_upper', 'oct', 'bin', 'char'))
    NT = dict((k, enum(m, '_ST_PRIVATE::numeric_type', 'numeric_' + k)) for k in ('positive', 'negative', 'zero'))
    want = {DC['default']: (10, None), DC['dec']: (10, None), DC['hex']: (16, 0), DC['hex_upper']: (16, 1), DC['oct']: (8, None), DC['bin']: (2, None)}
    n = 0
    for name in sorted(F.lib):
        f = m.func(name)
        mt = re.match(r'^void _ST_PRIVATE::format_numeric_([su])<([\w ]+)>\(ST::format_spec const&, ST::format_writer&, \2\)$', f.dem)
        if not mt:
            continue
        n += 1
        signed = mt.group(1) == 's'
        bits = int(f.params[2]['ty'][1:])

        def stop(I, st, inst, d, args):
            if re.match(r'^ST::uint_formatter<[\w ]+>::format\(', d):
                st.ev('digits', inst, args[1], args[2], args[3])
                return [(st, None)]
            if d.startswith('_ST_PRIVATE::format_numeric_string('):
                st.ev('layout', inst, args[0], args[4])
                return [(st, None)]
            if re.match(r'^ST::uint_formatter<[\w ]+>::(text|size)\(', d):
                return None
            return None
        I = Interp(m, F, E, WriterHooks(m, stop))
        st = State()
        fl = spec_scene(I, st, m)
        st.rng[fl['digit_class'].lin.atoms()[0]] = (DC['default'], DC['bin'])        # 'c' is diverted before the numeric printers (C10 R10.3)
        v = I.fresh_int(st, bits, 'value', signed=signed)
        w = I.fresh_ptr(st, 'writer')
        outs = I.run(I.start(f, [PtrV('SPEC'), w, v], st))
        probs, und = [], []
        seen = set()
        for o in outs:
            if o.kind == 'backedge':
                continue
            s2 = o.st
            if o.kind != 'ret':
                if o.kind == 'abort':
                    probs.append('aborts')
                continue
            dg = [e for e in s2.events if e[0] == 'digits']
            ly = [e for e in s2.events if e[0] == 'layout']
            if len(dg) != 1 or len(ly) != 1:
                und.append('path with %d digit generations / %d layouts' % (len(dg), len(ly)))
                continue
            dc = single(s2, fl['digit_class'].lin)
            radix, upper = dg[0][3], dg[0][4]
            rv = single(s2, radix.lin) if isinstance(radix, IntV) else None
            uv = single(s2, upper.lin) if isinstance(upper, IntV) else None
            if dc is None:
                und.append('digit class not decided on a path')
                continue
            seen.add(dc)
            wr, wu = want.get(dc, (None, None))
            if uv is None and isinstance(upper, IntV):
                # a flag computed from a comparison rather than chosen per branch: decided by the facts of the path
                c = I.cond_of(s2, upper)
                if c is not None:
                    can = [t for t in (True, False) if I.assume(s2.clone(), c, t)]
                    if len(can) == 1:
                        uv = 1 if can[0] else 0
            if rv is None:
                und.append('radix handed to the digit generator is not a constant on the path of digit class %d' % dc)
            elif rv != wr:
                probs.append('digit class %d is rendered in radix %s, expected %s' % (dc, rv, wr))
            elif wu is not None and uv is None:
                und.append('letter case handed to the digit generator not decided on the path of digit class %d' % dc)
            elif wu is not None and uv != wu:
                probs.append('digit class %d is rendered with upper_case=%s, expected %s' % (dc, uv, bool(wu)))
            ntv = ly[0][3]
            if not (isinstance(ly[0][2], PtrV) and ly[0][2].obj == 'SPEC'):
                probs.append('the layout routine is not given the field\'s format_spec')
            ntl = single(s2, ntv.lin) if isinstance(ntv, IntV) else None
            vl = I.as_s(s2, v) if signed else I.as_u(s2, v)
            if s2.is_eq0(vl) is True:
                exp = NT['zero']
            elif s2.is_ge0(-vl - 1) is True:
                exp = NT['negative']
            elif s2.is_ge0(vl - 1) is True:
                exp = NT['positive']
            else:
                exp = None
            if ntl is None or exp is None:
                und.append('sign class handed to the layout not decided')
            elif ntl != exp:
                probs.append('a %s value is laid out as %s' % ({NT['zero']: 'zero', NT['negative']: 'negative', NT['positive']: 'positive'}[exp],
                                                             {NT['zero']: 'zero', NT['negative']: 'negative', NT['positive']: 'positive'}.get(ntl, ntl)))
        if len(seen) < 6:
            und.append('only digit classes %s explored' % sorted(seen))
        run.ob('R11.3', short(f.dem), False if probs else (None if und else True), probs[0] if probs else (und[0] if und else
               'radix / case per digit class as tabled; sign class as the value'), loc=fn_loc(f))
    return n


def selection(run, m, F, E):
    """apply_format: which formatter a field is dispatched to."""
    fns = [m.func(x) for x in sorted(F.lib) if re.match(r'^(void )?ST::apply_format<.*>\(ST::format_writer&', m.func(x).dem)]
    fns = [f for f in fns if len(f.params) <= 4]
    n = 0
    lay = m.structs.get('struct.ST::format_spec')
    for f in fns:
        n += 1

        def stop(I, st, inst, d, args):
            if d.startswith('ST::format_writer::next_format()'):
                s2 = I.fork(st)
                return [(st, IntV(1, Lin.const(1), 'u')), (s2, IntV(1, ZERO, 'u'))]
            if d.startswith('ST::format_writer::parse_format()'):
                # a freshly parsed spec: only arg_index matters here
                ai = I.fresh_int(st, 32, 'arg_index', signed=True)
                st.flags['arg_index'] = ai
                dst = args[0]
                if isinstance(dst, PtrV) and dst.obj in st.objs and lay:
                    I.havoc_obj(st, dst.obj, 'parse_format')
                    st.objs[dst.obj].cells[lay['fields'][2][1]] = (4, ai)
                    return [(st, None)]
                st.flags['spec-by-value'] = True
                return None
            if 'std::function<' in d and '::operator()' in d:
                st.ev('dispatch', inst, args[0])
                return [(st, None)]
            if 'std::function<' in d or '_Function_base' in d or 'make_formatter_ref' in d:
                return [(st, None)]
            return None
        I = Interp(m, F, E, WriterHooks(m, stop))
        st = State()
        w = I.fresh_ptr(st, 'writer')
        args = [w] + [I.fresh_ptr(st, 'arg') for p in f.params[1:]]
        try:
            outs = I.run(I.start(f, args, st))
        except Budget as e:
            run.ob('R11.4', short(f.dem, 90), None, 'budget exceeded: %s' % e, loc=fn_loc(f))
            continue
        probs, und = [], []
        nseq = nref = 0
        for o in outs:
            s2 = o.st
            if o.kind != 'backedge' or not o.info or o.info[0] != f.name:
                continue
            hdr = o.info[1]
            b = s2.flags.get('hbegin:%s:%s' % (f.name, hdr)) or {}
            e = s2.flags.get('hend:%s:%s' % (f.name, hdr)) or {}
            wi = max([k for k, x in enumerate(s2.events) if x[0] == 'widen' and x[1] == f.name and x[2] == hdr] or [-1])
            dp = [x for x in s2.events[wi + 1:] if x[0] == 'dispatch']
            ai = s2.flags.get('arg_index')
            if not dp:
                continue            # construction / destruction loops over the formatter array
            if len(dp) != 1 or ai is None:
                und.append('iteration with %d dispatches' % len(dp))
                continue
            p = dp[0][2]
            ctr = [(nm, bv, e.get(nm)) for nm, bv in b.items() if isinstance(bv, IntV) and bv.bits == 64 and isinstance(e.get(nm), IntV)]
            if len(ctr) != 1 or not isinstance(p, PtrV):
                und.append('sequential counter / dispatch target not tracked')
                continue
            nm, bv, ev = ctr[0]
            base = [o2 for o2 in [p.obj] if o2 is not None]
            slot = p.off            # byte offset into the formatter array (32 bytes per std::function)
            ref = s2.is_ge0(ai.lin)
            if ref is True:
                nref += 1
                if s2.is_eq0(slot - (ai.lin - 1).scale(32)) is not True:
                    d = slot - (ai.lin - 1).scale(32)
                    env = s2.find_model([d], lambda v: v[0] != 0) if robust([d]) else None
                    (probs if env is not None else und).append('&N dispatches to the entry at byte offset %r, expected 32*(N-1)%s' % (slot, '; witness ' + own.fmt_env(env) if env else ''))
                if not congruent(s2, I.as_u(s2, ev), I.as_u(s2, bv), 64):
                    probs.append('a field with &N advances the sequential counter')
            elif ref is False:
                nseq += 1
                if s2.is_eq0(slot - I.as_u(s2, bv).scale(32)) is not True:
                    probs.append('a field without &N dispatches to the entry at byte offset %r, expected 32*counter' % (slot,))
                if not congruent(s2, I.as_u(s2, ev), I.as_u(s2, bv) + 1, 64):
                    probs.append('a field without &N does not advance the sequential counter by one')
            else:
                und.append('path does not decide whether the field carries &N')
        if nseq == 0 or nref == 0:
            und.append('sequential / referenced iterations explored: %d / %d' % (nseq, nref))
        run.ob('R11.4', short(f.dem, 90), False if probs else (None if und else True), probs[0] if probs else (und[0] if und else
               'without &N: entry[counter], counter+1; with &N: entry[N-1], counter unchanged'), loc=fn_loc(f))
    return n


def char_rendering(run, m, F, E):
    """R11.5: format_char renders a value given the character class as the UTF-8 encoding of that code point, U+FFFD for every value
    outside 0..10FFFF (negative values included).  The value is a symbol over the whole range of int; on each path the units handed
    to the writer are compared bit for bit with Unicode Table 3-6 for the value class of that path."""
    from . import c01
    from .. import bits as B
    f = None
    for name in F.lib:
        if re.match(r'^_ST_PRIVATE::format_char\(ST::format_spec const&, ST::format_writer&, (int|unsigned int|char32_t|long|unsigned long)\)', m.func(name).dem):
            f = m.func(name)
    if f is None:
        run.ob('R11.5', 'format_char', None, 'character renderer _ST_PRIVATE::format_char(format_spec, writer, <integer>) not found: not analysed')
        return 0
    ch_signed = re.search(r', (int|long)\)', f.dem) is not None
    ch_bits = int(f.params[2]['ty'][1:]) if f.params[2]['ty'][1:].isdigit() else 32

    class CH(WriterHooks):
        def call(self2, I, st, inst, name, args):
            if name is None and 'format_writer' in inst.d.get('fty', '') and '(%"class.ST::format_writer"*, i8*, i64)' in inst.d.get('fty', ''):
                n = I.as_u(st, args[2]) if isinstance(args[2], IntV) else None
                k = single(st, n) if n is not None else None
                units = None
                p = args[1]
                if k is not None and k <= 8 and isinstance(p, PtrV) and p.obj is not None:
                    units = []
                    for j in range(k):
                        units.append(I.load(st, inst, PtrV(p.obj, p.off + j), 'i8', 1))
                st.ev('emit-units', inst, units, n)
                return [(st, args[0])]
            return WriterHooks.call(self2, I, st, inst, name, args)
    I = Interp(m, F, E, CH(m))
    st = State()
    fl = spec_scene(I, st, m)
    run.need(fl is not None, 'layout of ST::format_spec not recognised')
    # documented contract: no padding on character conversions (the assertion is C10's)
    lay = m.structs.get('struct.ST::format_spec')
    for nm, fld in zip(['minimum_length', 'precision', 'arg_index', 'alignment', 'digit_class', 'float_class', 'pad'], lay['fields']):
        if nm == 'minimum_length':
            st.objs['SPEC'].cells[fld[1]] = (4, IntV(32, ZERO, 's'))
        if nm == 'pad':
            st.objs['SPEC'].cells[fld[1]] = (1, IntV(8, ZERO, 'u'))
    st.rng['ch'] = (-(1 << (ch_bits - 1)), (1 << (ch_bits - 1)) - 1) if ch_signed else (0, (1 << ch_bits) - 1)
    w = I.fresh_ptr(st, 'writer')
    outs = I.run(I.start(f, [PtrV('SPEC'), w, IntV(ch_bits, Lin.atom('ch'), 's' if ch_signed else 'u')], st))
    rows = c01.UTF8_ENC
    n = 0
    covered = []
    for o in outs:
        s2 = o.st
        lo, hi = s2.arange('ch')
        disc = 'value in [%s,%s]' % (hex(lo), hex(hi))
        if o.kind == 'abort':
            run.ob('R11.5', short(f.dem, 80), False, 'aborts (%s)' % (o.info[1] if o.info and len(o.info) > 1 else o.info,), disc=disc, loc=fn_loc(f))
            n += 1
            continue
        if o.kind != 'ret':
            continue
        n += 1
        em = [e for e in s2.events if e[0] in ('emit-units', 'emit', 'emit-char')]
        units = []
        tracked = True
        for e in em:
            if e[0] == 'emit-units' and e[2] is not None:
                units += e[2]
            elif e[0] == 'emit-char' and e[3] is not None and single(s2, e[3]) is not None and single(s2, e[3]) <= 4:
                units += [e[2]] * single(s2, e[3])
            elif e[0] == 'emit-units' and e[3] is not None and s2.is_eq0(e[3]) is True:
                pass
            else:
                tracked = False
        if not tracked or any(not isinstance(u, IntV) for u in units):
            run.ob('R11.5', short(f.dem, 80), None, 'the units handed to the writer are not tracked on this path', disc=disc, loc=fn_loc(f))
            continue
        covered.append((lo, hi))
        from .common import abstract_atoms
        if any(abstract_atoms(u.lin) for u in units) or any(e[0] == 'widen' for e in s2.events):
            # units assembled in a loop that was abstracted (filled back to front, say): their values are not functions of the
            # code point on this path any more
            run.ob('R11.5', short(f.dem, 80), None, 'the units handed to the writer are assembled in a loop that was abstracted: not compared', disc=disc, loc=fn_loc(f))
            continue
        if hi < 0 or lo > 0x10FFFF:
            got = [single(s2, I.as_u(s2, u)) for u in units]
            ok = got == [0xEF, 0xBF, 0xBD]
            if not ok and any(x is None for x in got):
                run.ob('R11.5', short(f.dem, 80), None, 'the units rendered for a value outside 0..10FFFF are not constants on this path', disc=disc, loc=fn_loc(f))
                continue
            run.ob('R11.5', short(f.dem, 80), ok, 'U+FFFD (EF BF BD)' if ok else 'a value outside 0..10FFFF (e.g. %d) renders as %s, expected EF BF BD' % (
                lo if lo > 0x10FFFF else hi, ' '.join('%02X' % (x & 0xFF) if x is not None else '??' for x in got) or '(nothing)'), disc=disc, loc=fn_loc(f))
            continue
        row = [r for r in rows if r[0] <= max(lo, 0) and min(hi, 0x10FFFF) <= r[1]]
        if lo < 0 or hi > 0x10FFFF or not row:
            # the path's value class straddles rows of the table (or the valid range): judge its two ends
            wit = None
            for v in (lo, hi):
                exp = [r for r in rows if r[0] <= v <= r[1]]
                explen = len(exp[0][2]) if exp else 3
                if explen != len(units):
                    wit = (v, explen)
                    break
            if wit:
                run.ob('R11.5', short(f.dem, 80), False, 'the value %s is rendered with %d unit(s), its encoding has %d' % (hex(wit[0]), len(units), wit[1]), disc=disc, loc=fn_loc(f))
            else:
                run.ob('R11.5', short(f.dem, 80), None, 'value class spans several rows of the encoding table: not compared', disc=disc, loc=fn_loc(f))
            continue
        want = row[0][2]
        problems = []
        if len(units) != len(want):
            problems.append('%d unit(s) for the value %s, its encoding has %d' % (len(units), hex(lo), len(want)))
        else:
            be = B.BitEval(s2)
            for k, (u, wv) in enumerate(zip(units, want)):
                got = c01.lin_bits(I, s2, be, u, 8)
                if got != c01.pad(wv, 8):
                    if B.T in got:
                        problems.append(None)
                    else:
                        problems.append('unit %d is [%s], the standard says [%s]' % (k, B.fmt(got), B.fmt(c01.pad(wv, 8))))
        real = [x for x in problems if x]
        run.ob('R11.5', short(f.dem, 80), False if real else (None if problems else True), real[0] if real else ('unit bits not expressible' if problems else
               'UTF-8 encoding of the value, bit for bit'), disc=disc, loc=fn_loc(f))
    # every value of the renderer's parameter is on some path
    covered.sort()
    at = -(1 << (ch_bits - 1)) if ch_signed else 0
    top = ((1 << (ch_bits - 1)) - 1) if ch_signed else ((1 << ch_bits) - 1)
    for lo, hi in covered:
        if lo <= at:
            at = max(at, hi + 1)
    if at <= top and covered:
        run.ob('R11.5', short(f.dem, 80), None, 'no tracked path for values from %s' % hex(at), disc='coverage', loc=fn_loc(f))
    n += char_fronts(run, m, F, E, f, ch_signed, ch_bits)
    return n


def char_fronts(run, m, F, E, renderer, ch_signed, ch_bits):
    """R11.5 (fronts): what the integer format_type overloads hand the character renderer.  For an argument value v of the overload's
    type the code point handed over is v itself when v is in 0..10FFFF, and a value outside 0..10FFFF when v is (so that a negative
    or too large argument renders as U+FFFD and never as some other character) - for v over the whole range of the type."""
    DCc = enum(m, 'ST::digit_class_t', 'digit_char')
    n = 0
    for name in F.lib:
        f = m.func(name)
        mt = re.match(r'^ST::format_type\(ST::format_spec const&, ST::format_writer&, ((?:un)?signed char|char|short|unsigned short|int|unsigned int|long|unsigned long|long long|unsigned long long|wchar_t|char16_t|char32_t)\)$', f.dem)
        if not mt or DCc is None:
            continue
        ty = mt.group(1)
        bits = int(f.params[2]['ty'][1:]) if f.params[2]['ty'][1:].isdigit() else None
        if bits is None:
            continue
        signed = ty in ('signed char', 'short', 'int', 'long', 'long long') or (ty == 'char' and not UNSIGNED_CHAR[0])
        n += 1
        got = []

        def stop(I, st, inst, d, args, got=got):
            if d.startswith('_ST_PRIVATE::format_char('):
                st.ev('to-char', inst, args[2])
                return [(st, None)]
            if d.startswith('_ST_PRIVATE::format_numeric_') or d.startswith('ST::format_string('):
                return [(st, None)]
            return None
        I = Interp(m, F, E, WriterHooks(m, stop))
        st = State()
        fl = spec_scene(I, st, m)
        if fl is None:
            continue
        lay = m.structs.get('struct.ST::format_spec')
        for nm, fld in zip(['minimum_length', 'precision', 'arg_index', 'alignment', 'digit_class'], lay['fields']):
            if nm == 'digit_class':
                st.objs['SPEC'].cells[fld[1]] = (4, IntV(32, Lin.const(DCc), 'u'))
        st.rng['argv'] = (-(1 << (bits - 1)), (1 << (bits - 1)) - 1) if signed else (0, (1 << bits) - 1)
        v = IntV(bits, Lin.atom('argv'), 's' if signed else 'u')
        w = I.fresh_ptr(st, 'writer')
        try:
            outs = I.run(I.start(f, [PtrV('SPEC'), w, v], st))
        except Exception as e:
            run.ob('R11.5', short(f.dem, 90), None, 'not interpreted: %s' % (str(e)[:60],), disc='front', loc=fn_loc(f))
            continue
        probs, und, seen = [], [], 0
        for o in outs:
            if o.kind != 'ret':
                continue
            s2 = o.st
            tc = [e for e in s2.events if e[0] == 'to-char']
            if len(tc) != 1 or not isinstance(tc[0][2], IntV):
                und.append('the character class does not lead to one call of the character renderer')
                continue
            seen += 1
            cp = I.as_s(s2, tc[0][2]) if ch_signed else I.as_u(s2, tc[0][2])
            av = Lin.atom('argv')

            def wrong(vals):
                a, c = vals
                if 0 <= a <= 0x10FFFF:
                    return c != a
                return 0 <= c <= 0x10FFFF
            env = s2.find_model([av, cp], wrong)
            if env is not None:
                from ..terms import eval_lin
                a0 = env.get('argv')
                try:
                    c0 = eval_lin(cp, env)
                except KeyError:
                    c0 = None
                probs.append('the argument value %d reaches the character renderer as %s: %s; witness %s' %
                             (a0, hex(c0) if c0 is not None else '?', 'a value outside 0..10FFFF must render as U+FFFD, not as a character'
                              if not (0 <= a0 <= 0x10FFFF) else 'a code point must reach it unchanged', own.fmt_env(env)))
        if seen == 0 and not und:
            und.append('no path with the character class explored')
        run.ob('R11.5', short(f.dem, 90), False if probs else (None if und else True), probs[0] if probs else (und[0] if und else
               'the code point handed over is the argument when it is in 0..10FFFF and outside that range when the argument is'), disc='front', loc=fn_loc(f))
    return n


def flag_table(run, m, F, E):
    """R11.6: what each character of a field text does to the public ST::format_spec (the contract between the parser and every
    renderer, built-in or user-defined): one arbitrary iteration of parse_format is interpreted over an abstract text; on each
    path the unit read (its case) is matched with the fields stored in that iteration."""
    from . import c10
    f = None
    for name in F.lib:
        if m.func(name).dem == 'ST::format_writer::parse_format()':
            f = m.func(name)
    if f is None:
        run.ob('R11.6', 'parse_format', None, 'ST::format_writer::parse_format() not found: not analysed')
        return 0
    lay = m.structs.get('struct.ST::format_spec')
    names = ['minimum_length', 'precision', 'arg_index', 'alignment', 'digit_class', 'float_class', 'pad', 'always_signed', 'class_prefix', 'numeric_pad']
    if not lay or len(lay['fields']) != len(names):
        run.ob('R11.6', short(f.dem), None, 'layout of ST::format_spec not recognised')
        return 0
    off2name = dict((fld[1], nm) for nm, fld in zip(names, lay['fields']))
    AL = m.enums.get('ST::alignment_t') or {}
    DC = m.enums.get('ST::digit_class_t') or {}
    FC = m.enums.get('ST::float_class_t') or {}
    ORACLE = {
        ord('<'): {'alignment': AL.get('align_left')}, ord('>'): {'alignment': AL.get('align_right')},
        ord('0'): {'pad': 0x30, 'numeric_pad': 1}, ord('#'): {'class_prefix': 1}, ord('+'): {'always_signed': 1},
        ord('x'): {'digit_class': DC.get('digit_hex')}, ord('X'): {'digit_class': DC.get('digit_hex_upper')},
        ord('d'): {'digit_class': DC.get('digit_dec')}, ord('o'): {'digit_class': DC.get('digit_oct')},
        ord('b'): {'digit_class': DC.get('digit_bin')}, ord('c'): {'digit_class': DC.get('digit_char')},
        ord('f'): {'float_class': FC.get('float_fixed')}, ord('e'): {'float_class': FC.get('float_exp')},
        ord('E'): {'float_class': FC.get('float_exp_upper')},
    }

    class PH(c10.ParserHooks):
        def on_store(self2, I, st, inst, p, v, nbytes):
            if p.obj == 'SPECOUT' and not p.off.t:
                st.ev('spec-store', inst, p.off.c, v)
            elif p.obj != 'W' and len(st.frames) == 1:
                st.ev('other-store', inst, p.obj)      # something is remembered elsewhere (a flag applied later?)

        def unroll_for(self2, I, fn, header, st=None):
            # a loop of a helper called for one character (a table lookup): interpreted exactly
            if st is not None and len(st.frames) > 1:
                from ..interp import loop_info
                for fr2 in st.frames[:-1]:
                    loops2, _b = loop_info(fr2.fn)
                    if any(fr2.block in body for body in loops2.values()):
                        return 12
            return c10.ParserHooks.unroll_for(self2, I, fn, header, st) if hasattr(c10.ParserHooks, 'unroll_for') else self2.unroll
    I = Interp(m, F, E, PH(m))
    st = c10.text_state()
    so = Obj('ext', Lin.const(lay['size']))
    so.lazy = True
    st.objs['SPECOUT'] = so
    try:
        outs = I.run(I.start(f, [PtrV('SPECOUT'), PtrV('W')], st))
    except Budget as e:
        run.ob('R11.6', short(f.dem), None, 'not interpreted: %s' % e, loc=fn_loc(f))
        return 0
    from ..terms import base_atoms
    seen = {}
    n = 0
    und_all = []
    for o in outs:
        if o.kind != 'backedge' or not o.info or o.info[0] != f.name:
            continue
        s2 = o.st
        wi = max([k for k, e in enumerate(s2.events) if e[0] == 'widen' and e[1] == f.name] or [-1])
        evs = s2.events[wi + 1:]
        reads = [e for e in evs if e[0] == 'text-read']
        stores = [e for e in evs if e[0] == 'spec-store']
        if not reads:
            continue
        # the unit that selected this path: the first unit read in the iteration
        ua = [a for a in s2.rng if isinstance(a, tuple) and a[0] == 'load' and a[1] == 'FMT' and s2.is_eq0(a[2] - reads[0][2]) is True]
        if len(ua) != 1:
            und_all.append('the unit that selects a flag is not identified on a path')
            continue
        lo, hi = s2.arange(ua[0])
        got = {}
        for e in stores:
            nm = off2name.get(e[2])
            if nm is None:
                continue
            v = e[3]
            got[nm] = (v.lin.c if isinstance(v, IntV) and not v.lin.t else v)
        if lo == hi and lo in ORACLE:
            want = ORACLE[lo]
            n += 1
            seen[lo] = True
            probs = []
            und1 = []
            for nm, wv in want.items():
                gv = got.get(nm, 'untouched')
                if isinstance(gv, IntV):
                    r = s2.range(gv.lin)
                    if r[0] == r[1]:
                        gv = r[0]
                if gv == 'untouched':
                    if [e for e in evs if e[0] == 'other-store']:
                        und1.append("'%s' does not store %s in its own iteration, but remembers something else: not decided" % (chr(lo), nm))
                    else:
                        probs.append("'%s' does not set %s (expected %s)" % (chr(lo), nm, wv))
                elif not isinstance(gv, int):
                    und1.append("'%s' stores a computed value into %s (%r): not decided" % (chr(lo), nm, gv))
                elif (gv & 0xFF if nm in ('pad', 'always_signed', 'class_prefix', 'numeric_pad') else gv) != wv:
                    probs.append("'%s' sets %s = %s, expected %s" % (chr(lo), nm, gv, wv))
            extra = [nm for nm in got if nm not in want]
            if extra:
                probs.append("'%s' also changes %s" % (chr(lo), ', '.join(extra)))
            run.ob('R11.6', short(f.dem), False if probs else (None if und1 else True), probs[0] if probs else und1[0] if und1 else "'%s' -> %s" % (chr(lo), ', '.join('%s=%s' % kv for kv in sorted(want.items()))),
                   disc="flag '%s'" % chr(lo), loc=fn_loc(f))
        elif lo == hi and lo == ord('_'):
            n += 1
            seen[lo] = True
            probs = []
            pv = got.get('pad')
            if not isinstance(pv, IntV) or not [a for a in base_atoms(pv.lin) if isinstance(a, tuple) and a[0] == 'load' and a[1] == 'FMT' and s2.is_eq0(a[2] - reads[0][2] - 1) is True]:
                probs.append("'_' does not take the pad character from the unit that follows it")
            if got.get('numeric_pad') not in (0,):
                probs.append("'_' does not clear numeric_pad")
            run.ob('R11.6', short(f.dem), not probs, probs[0] if probs else "'_c' -> pad=c, numeric_pad=false", disc="flag '_'", loc=fn_loc(f))
        elif lo >= ord('1') and hi <= ord('9') or (lo == hi and lo in (ord('.'), ord('&'))):
            key = 'minimum_length' if lo >= ord('1') and hi <= ord('9') else ('precision' if lo == ord('.') else 'arg_index')
            n += 1
            seen[key] = True
            sv = got.get(key)
            ok = isinstance(sv, IntV) and any(isinstance(a, str) and a.startswith('strto') or (isinstance(a, tuple) and 'strto' in str(a[0])) for a in base_atoms(sv.lin)) or \
                (isinstance(sv, IntV) and [e for e in evs if e[0] == 'strto'])
            extra = [nm for nm in got if nm != key]
            probs = []
            if sv is None:
                probs.append('%s is not stored for its introducer' % key)
            elif extra:
                probs.append('the %s introducer also changes %s' % (key, ', '.join(extra)))
            run.ob('R11.6', short(f.dem), False if probs else (True if ok else None), probs[0] if probs else ('%s = the decimal number that follows' % key if ok else
                   '%s is stored, but not recognisably as the number parsed from the text' % key), disc=key, loc=fn_loc(f))
    missing = [chr(c) for c in ORACLE if c not in seen] + ([] if ord('_') in seen else ['_'])
    if missing or und_all:
        run.ob('R11.6', short(f.dem), None, (und_all[0] if und_all else 'no iteration path found for the flag character(s) %s' % ' '.join(missing)), disc='coverage', loc=fn_loc(f))
    return n


def spec_defined(run, m, F, E):
    """R11.7: the format_spec a field is rendered with is defined by that field's text alone: on every returning path of the parser
    every member of the spec it hands back has been written in this call (a member left alone would carry over from whatever the
    object held before - the previous field's flags when the caller reuses one spec, or nothing defined at all)."""
    from . import c10
    lay = m.structs.get('struct.ST::format_spec')
    names = ['minimum_length', 'precision', 'arg_index', 'alignment', 'digit_class', 'float_class', 'pad', 'always_signed', 'class_prefix', 'numeric_pad']
    if not lay or len(lay['fields']) != len(names):
        run.ob('R11.7', 'parse_format', None, 'layout of ST::format_spec not recognised')
        return 0
    offs = dict((nm, (fld[1], fld[0])) for nm, fld in zip(names, lay['fields']))
    n = 0
    for name in F.lib:
        f = m.func(name)
        if not re.match(r'^ST::format_writer::parse_format\(', f.dem):
            continue
        si = f.sret_index()
        if si is None:
            cand = [k for k, p in enumerate(f.params) if 'format_spec' in p['ty'] and p['ty'].endswith('*')]
            si = cand[0] if cand else None
        if si is None:
            run.ob('R11.7', short(f.dem), None, 'where this parser puts the spec is not recognised', loc=fn_loc(f))
            continue
        n += 1

        class PH(c10.ParserHooks):
            def on_store(self2, I, st, inst, p, v, nbytes):
                if p.obj == 'SPECOUT' and not p.off.t:
                    st.ev('spec-store', inst, p.off.c, nbytes)
        I = Interp(m, F, E, PH(m))
        st = c10.text_state()
        so = Obj('ext', Lin.const(lay['size']))
        so.lazy = True
        st.objs['SPECOUT'] = so
        args = []
        for k, p in enumerate(f.params):
            args.append(PtrV('SPECOUT') if k == si else PtrV('W'))
        try:
            outs = I.run(I.start(f, args, st))
        except Budget as e:
            run.ob('R11.7', short(f.dem), None, 'not interpreted: %s' % e, loc=fn_loc(f))
            continue
        missing, nret = {}, 0
        always = None
        by_ref = f.sret_index() is None
        for o in outs:
            if o.kind != 'ret':
                continue
            nret += 1
            written = set()
            for e in o.st.events:
                if e[0] == 'spec-store':
                    for b in range(e[2], e[2] + e[3]):
                        written.add(b)
            for (roff, rlen, tag, ver) in o.st.objs['SPECOUT'].regions:
                rl = rlen if isinstance(rlen, int) else (rlen.c if isinstance(rlen, Lin) and not rlen.t else None)
                if not roff.t and rl is not None:
                    for b in range(roff.c, roff.c + rl):
                        written.add(b)
            for nm, (off, ty) in offs.items():
                if off not in written:
                    missing[nm] = missing.get(nm, 0) + 1
            here = set(nm for nm, (off, ty) in offs.items() if off in written)
            always = here if always is None else (always & here)
        if nret and missing and by_ref and not always:
            # a parser that fills a caller's object and resets nothing itself: resetting is the caller's business, not analysed here
            run.ob('R11.7', short(f.dem), None, 'fills a spec object of its caller and writes no member unconditionally: whether the caller resets the object '
                   'between fields is not analysed', loc=fn_loc(f))
            continue
        if nret == 0:
            run.ob('R11.7', short(f.dem), None, 'no returning path explored', loc=fn_loc(f))
        elif missing:
            nm = sorted(missing)[0]
            run.ob('R11.7', short(f.dem), False, 'member %s of the spec is not written on %d of %d returning path(s) (e.g. a field "{}" without flags): it keeps whatever '
                   'the object held before - the flags of the previous field when the caller reuses the object%s' %
                   (nm, missing[nm], nret, '; also: ' + ', '.join(sorted(missing)[1:]) if len(missing) > 1 else ''), loc=fn_loc(f), disc=nm)
        else:
            run.ob('R11.7', short(f.dem), True, 'all %d members written on each of %d returning path(s)' % (len(names), nret), loc=fn_loc(f))
    return n


def check(run):
    m = run.module()
    UNSIGNED_CHAR[0] = '-funsigned-char' in run.config[1]
    F = run.facts()
    E = run.effects()
    run.trust('clang 14 lowering (LLVM IR, -O0, mem2reg)', 'STIR interpreter',
              'C10 for the parser (which format_spec a field text yields), C12 for the digits of a value, C16/C17 for what the writers do with the units')
    run.assume('the writers append the units they are handed in call order (C16); a count of 0 emits nothing',
               'texts handed to format_string are shorter than ST_HUGE_BUFFER_SIZE (256 Mi units): the string constructors assert it, and a longer result '
               'ends in the same assertion in to_string(); for longer texts static_cast<int>(size) in format_string wraps (observation, outside C11)')
    run.floor('numeric layout cases', numeric_layout(run, m, F, E), 20)
    run.floor('text layout cases', text_layout(run, m, F, E), 6)
    run.floor('numeric printers', numeric_fronts(run, m, F, E), 8)
    run.floor('apply_format instantiations', selection(run, m, F, E), 1)
    run.counts['character rendering paths'] = char_rendering(run, m, F, E)
    run.counts['flag characters decoded'] = flag_table(run, m, F, E)
    run.floor('parsers whose spec is checked for members left undefined', spec_defined(run, m, F, E), 1)
    for o in run.obs[:6]:
        run.sample(dict(rule=o['rule'], subject=o['subject'], verdict=o['verdict'], detail=o['detail'][:200]))
