"""C07 - searching returns exactly the first / last occurrence.

Decided here are the step facts and call-site facts from which "first / last occurrence" follows by induction over the scan
(the induction itself is stated in DESIGN.md, not mechanised):

R07.1 front ends: find(start, ...) searches exactly [start, size) of the string - (c_str()+start, size()-start) with start < size,
      no wrap-around - for a needle of length >= 1, and returns match - c_str() or -1; it returns -1 without searching only when
      the needle is empty / null or start >= size; find_last front ends hand (max, needle, length >= 1) to the backward core
R07.2 scan cores are safe and tight: a candidate is compared only when it fits (hit + |needle| <= end) and is given up for not
      fitting only when hit + |needle| > end; the comparison is (hit, needle, |needle|); a non-null result is a position whose
      comparison returned 0
R07.3 no candidate is skipped: the scans resume exactly one unit after a rejected candidate (find_cs / find_ci needle cores, the
      case-insensitive character scan) and one unit after a match in the backward cores (_find_last, find_last(max, char)), whose
      search window is [cursor, c_str() + min(max, size)) and whose result is the last match seen
R07.4 overload funnel: char / const char* / (pointer,length) / ST::string / char8_t needles reach the cores with |needle| =
      1 / strlen / length / size() and the same pointer; start defaults to 0 and max to SIZE_MAX
R07.5 contains == (find >= 0) with the arguments passed through; starts_with / ends_with compare exactly |x| units at offset 0 /
      size - |x| under the guard |x| <= size (so empty text matches trivially)
"""
import re

from ..interp import Interp, Hooks, Budget
from ..state import State, Obj, IntV, PtrV, NULL, MAXLEN
from ..terms import Lin, ZERO
from . import own
from .c08 import string_scene, SliceHooks
from .common import short, fn_loc, robust, unit_models

LEVEL = 'other'
EXPLANATION = ('per-iteration step summaries of the scan loops and per-path call-site facts of the front ends by abstract interpretation '
               'over LLVM IR, with the character search / prefix comparison as symbols and start, max, lengths free over 64 bits; '
               'mismatches come with witnesses')

SIZE_MAX = (1 << 64) - 1
CHAR_SEARCH = re.compile(r'^_ST_PRIVATE::find_c([si])\(char const\*, unsigned long, char\)')
NEEDLE_SEARCH = re.compile(r'^_ST_PRIVATE::find_c([si])\(char const\*, unsigned long, char const\*, unsigned long\)')
CMP3 = re.compile(r'^_ST_PRIVATE::compare_c([si])\(char const\*, char const\*, unsigned long\)')
TRAITS_CMP = re.compile(r'^std::char_traits<char>::compare\(')


def find_fn(m, F, dem):
    for name in F.lib:
        f = m.func(name)
        if f.dem == dem:
            return f
    return None


class SearchHooks(SliceHooks):
    """level 'char': character search and 3-argument comparisons are symbols (needle cores are interpreted)
       level 'needle': the needle cores are symbols too (front ends, backward cores)
       level 'member': calls of ST::string::find / find_last / _find_last are symbols (forwarders, contains)"""
    unroll = 0
    widen_on_entry = True

    def __init__(self, m, level, own_name=None):
        SliceHooks.__init__(self, m)
        self.level = level
        self.own_name = own_name

    def search(self, I, st, inst, kind, cs, hay, hlen, needle, nlen):
        hl = I.as_u(st, hlen) if isinstance(hlen, IntV) else None
        st.ev('search', inst, hay, hl, needle, nlen, cs, kind)
        if not isinstance(hay, PtrV) or hay.obj is None or hl is None:
            return [(st, I.fresh_ptr(st, 'match', maynull=True))]
        s2 = I.fork(st)
        k = I.fresh('k')
        st.rng[k] = (0, MAXLEN)
        conts = []
        if st.assume_ge0(hl - Lin.atom(k) - nlen):
            st.flags['match'] = (hay.obj, hay.off + Lin.atom(k), nlen)
            st.flags['nmatch'] = st.flags.get('nmatch', 0) + 1
            st.ev('hit', inst, hay.obj, hay.off + Lin.atom(k), nlen, kind)
            conts.append((st, PtrV(hay.obj, hay.off + Lin.atom(k), None)))
        s2.flags['match'] = None
        conts.append((s2, NULL))
        return conts

    def call(self, I, st, inst, name, args):
        if name is None:
            return None
        d = self.m.dem(name)
        mt = CHAR_SEARCH.match(d)
        if mt:
            return self.search(I, st, inst, 'char', 'c' + mt.group(1), args[0], args[1], args[2], Lin.const(1))
        if self.level in ('needle', 'member'):
            mt = NEEDLE_SEARCH.match(d)
            if mt:
                nl = I.as_u(st, args[3]) if isinstance(args[3], IntV) else None
                if nl is None:
                    return None
                return self.search(I, st, inst, 'needle', 'c' + mt.group(1), args[0], args[1], args[2], nl)
        mt = CMP3.match(d)
        if mt or TRAITS_CMP.match(d):
            n = I.as_u(st, args[2]) if isinstance(args[2], IntV) else None
            st.ev('cmp', inst, args[0], args[1], n, ('c' + mt.group(1)) if mt else 'cs')
            s2 = I.fork(st)
            conts = [(st, IntV(32, ZERO, 's'))]
            st.flags['cmpres'] = 'eq'
            if n is None or s2.assume_ge0(n - 1):
                v = I.fresh_int(s2, 32, 'cmp', signed=True)
                if s2.assume_ne0(v.lin):
                    s2.flags['cmpres'] = 'ne'
                    conts.append((s2, v))
            return conts
        if self.level == 'member' and re.match(r'^ST::string::(_?find(_last)?)\(', d) and name != self.own_name:
            st.ev('member', inst, d, list(args))
            idx = I.fresh_int(st, 64, 'idx', signed=True, lo=-1, hi=MAXLEN)
            st.flags['idx'] = idx
            return [(st, idx)]
        if self.level == 'needle' and d.startswith('ST::string::_find_last('):
            st.ev('member', inst, d, list(args))
            idx = I.fresh_int(st, 64, 'idx', signed=True, lo=-1, hi=MAXLEN)
            st.flags['idx'] = idx
            return [(st, idx)]
        return None


def loop_view(o, f):
    """(begin slots, end slots, events of the iteration) of the loop a path is judged in: the loop of the back edge, or - on a
    returning path - the outermost widened loop of the function."""
    st = o.st
    if o.kind == 'backedge' and o.info and o.info[0] == f.name:
        header = o.info[1]
    else:
        ws = [e for e in st.events if e[0] == 'widen' and e[1] == f.name]
        if not ws:
            return {}, {}, list(st.events), None
        header = ws[0][2]
    wi = max([k for k, e in enumerate(st.events) if e[0] == 'widen' and e[1] == f.name and e[2] == header] or [-1])
    return (st.flags.get('hbegin:%s:%s' % (f.name, header)) or {}, st.flags.get('hend:%s:%s' % (f.name, header)) or {},
            st.events[wi + 1:], header)


def exact_resume(m, F, E, f, mk_scene, level, expected_step):
    """Confirmation pass for resume-step findings that were made in the abstraction of a loop: the first iterations are
    interpreted exactly (no widening); consecutive searches on such a prefix give the resume step in terms of the inputs alone.
    Returns a finding text with a witness, or None."""
    class H(SearchHooks):
        unroll = 2
        widen_on_entry = False
        stop_at_widen = True
        max_paths = 20000
    I = Interp(m, F, E, H(m, level))
    st = State()
    args = mk_scene(I, st)
    try:
        outs = I.run(I.start(f, args, st))
    except Budget:
        return None
    for o in outs:
        s2 = o.st
        cut = min([k for k, e in enumerate(s2.events) if e[0] in ('widen', 'widen-unknown-store')] or [len(s2.events)])
        evs = [e for e in s2.events[:cut] if e[0] in ('search', 'hit')]
        for a, b in zip(evs, evs[1:]):
            pass
        k = 0
        while k + 2 < len(evs) + 0:
            if evs[k][0] == 'search' and evs[k + 1][0] == 'hit' and evs[k + 2][0] == 'search' and isinstance(evs[k + 2][2], PtrV) \
                    and evs[k + 2][2].obj == evs[k + 1][2]:
                step = evs[k + 2][2].off - evs[k + 1][3]
                exp = expected_step(evs[k + 1])
                if s2.is_eq0(step - exp) is not True and robust([step - exp]):
                    env = s2.find_model([step - exp, evs[k + 1][3]], lambda v: v[0] != 0)
                    if env is None and not (step - exp).t:
                        env = s2.find_model([evs[k + 1][3]], lambda v: True) or {}
                    if env is not None:
                        return 'on an exactly interpreted prefix the search after the candidate at offset %r starts %r units later, expected %r; witness %s' % (
                            evs[k + 1][3], step, exp, own.fmt_env(env))
            k += 1
    return None


def verdict(run, rule, f, probs, und, okmsg, disc=''):
    # a finding whose text speaks about a symbol that stands for lost precision (a widened loop value) and carries no witness is the
    # abstraction talking, not the code
    from .common import abstract_atoms
    soft = [p for p in probs if abstract_atoms(p) and 'witness' not in p]
    if soft:
        probs = [p for p in probs if p not in soft]
        und = list(und) + ['%s (over an abstracted value: not a witness)' % p[:200] for p in soft[:2]]
    run.ob(rule, short(f.dem), False if probs else (None if und else True), probs[0] if probs else (und[0] if und else okmsg),
           disc=disc, loc=fn_loc(f))


def feasible_gt(st, lin, bound):
    """witness for lin > bound, or None"""
    return st.find_model([lin], lambda v: v[0] > bound)


# ------------------------------------------------------------------------------------------------ cores

def char_scan(run, m, F, E):
    """find_ci(haystack, size, ch): examines the unit at the cursor, returns the cursor on a (folded) match, else advances by one."""
    f = find_fn(m, F, '_ST_PRIVATE::find_ci(char const*, unsigned long, char)')
    run.need(f is not None, 'find_ci(char) not found')
    I = Interp(m, F, E, SliceHooks(m))
    st = State()
    st.rng['hsize'] = (0, MAXLEN)
    st.objs['HAY'] = Obj('ext', Lin.atom('hsize'))
    ch = I.fresh_int(st, 8, 'ch')
    outs = I.run(I.start(f, [PtrV('HAY'), IntV(64, Lin.atom('hsize'), 'u'), ch], st))
    p2, p3, und = [], [], []
    nb = nr = 0
    for o in outs:
        s2 = o.st
        b, e, evs, hdr = loop_view(o, f)
        cur = [(nm, v) for nm, v in b.items() if isinstance(v, PtrV) and v.obj == 'HAY']
        for ev in s2.events:
            if ev[0] in ('oob', 'oob?') and isinstance(ev[3], PtrV) and ev[3].obj == 'HAY':
                env = ev[6] if len(ev) > 6 else None
                if ev[0] == 'oob' or env is not None:
                    p2.append('reads the haystack at offset %r of %r (line %d)%s' % (ev[3].off, Lin.atom('hsize'), ev[1].line, '; witness ' + own.fmt_env(env) if env else ''))
                else:
                    und.append('bounds of the read at line %d not decided' % ev[1].line)
        if o.kind == 'backedge':
            nb += 1
            if len(cur) != 1:
                und.append('scan cursor not tracked')
                continue
            nm, bv = cur[0]
            ev2 = e.get(nm)
            if not isinstance(ev2, PtrV):
                und.append('scan cursor after the iteration not tracked')
            elif s2.is_eq0(ev2.off - bv.off - 1) is not True:
                env = s2.find_model([ev2.off - bv.off], lambda vv: vv[0] != 1)
                if env is not None or s2.is_eq0(ev2.off - bv.off - 1) is False:
                    p3.append('the scan advances by %r per rejected unit, not 1%s' % (ev2.off - bv.off, '; witness ' + own.fmt_env(env) if env else ''))
                else:
                    und.append('advance of the scan per rejected unit (%r) not decided' % (ev2.off - bv.off,))
        elif o.kind == 'ret':
            nr += 1
            v = o.val
            if isinstance(v, PtrV) and v.obj == 'HAY':
                if len(cur) == 1 and s2.is_eq0(v.off - cur[0][1].off) is not True:
                    p2.append('returns position %r, the unit examined last is at %r' % (v.off, cur[0][1].off))
                if not (s2.is_ge0(v.off) is True and s2.is_ge0(Lin.atom('hsize') - v.off - 1) is True):
                    d0, d1 = v.off, Lin.atom('hsize') - v.off - 1
                    env = s2.find_model([d0, d1], lambda vv: vv[0] < 0 or vv[1] < 0)
                    if env is not None:
                        p2.append('returns a position outside the haystack; witness %s' % own.fmt_env(env))
                    else:
                        und.append('the returned position %r is not decided to lie inside the haystack' % (v.off,))
            elif isinstance(v, PtrV) and v.obj is None:
                if len(cur) == 1 and s2.is_ge0(cur[0][1].off - Lin.atom('hsize')) is not True:
                    p2.append('gives up at position %r before the end of the haystack' % (cur[0][1].off,))
            else:
                und.append('return value not tracked')
    # the hit test itself: a unit is taken iff it equals the wanted character after folding A-Z to a-z (finite case analysis over
    # all (unit, character) pairs each path admits - extensions and comparisons of the two values included)
    def fold(x):
        x &= 0xFF
        return x + 32 if 0x41 <= x <= 0x5A else x
    cha = ch.lin.single_atom()[0] if ch.lin.single_atom() else None
    for o in outs:
        s2 = o.st
        if o.kind not in ('backedge', 'ret') or cha is None:
            continue
        b, e, evs, hdr = loop_view(o, f)
        uas = [a for a in s2.rng if isinstance(a, tuple) and a[0] == 'load' and a[1] == 'HAY' and a[4] == 8]
        cur = [(nm, v) for nm, v in b.items() if isinstance(v, PtrV) and v.obj == 'HAY']
        here = [a for a in uas if len(cur) == 1 and s2.is_eq0(a[2] - cur[0][1].off) is True]
        taken = o.kind == 'ret' and isinstance(o.val, PtrV) and o.val.obj == 'HAY'
        passed = o.kind == 'backedge'
        if not (taken or passed):
            continue
        if len(here) != 1:
            und.append('the unit examined in an iteration is not identified')
            continue
        models, mixed = unit_models(s2, [here[0], cha])
        if models is None:
            und.append('hit test not analysed: %s' % mixed)
            continue
        wrong = [mdl for mdl in models if (fold(mdl[here[0]]) == fold(mdl[cha])) != taken]
        if wrong:
            w = wrong[0]
            msg = ('a unit 0x%02X is %s although the character searched for is 0x%02X (%s after folding A-Z to a-z)' %
                   (w[here[0]] & 0xFF, 'taken as a match' if taken else 'passed over', w[cha] & 0xFF, 'different' if taken else 'equal'))
            (und if mixed else p2).append(msg)
    if nb == 0 or nr < 2:
        und.append('scan loop not explored (%d back edges, %d returns)' % (nb, nr))
    verdict(run, 'R07.2', f, p2, und, 'reads inside the haystack; returns the examined position or null at the end; a unit is taken iff it folds to the wanted character', 'char scan')
    verdict(run, 'R07.3', f, p3, und, 'advances one unit per rejected position', 'char scan')
    return 1


def needle_cores(run, m, F, E):
    n = 0
    for ci in ('s', 'i'):
        f = find_fn(m, F, '_ST_PRIVATE::find_c%s(char const*, unsigned long, char const*, unsigned long)' % ci)
        run.need(f is not None, 'find_c%s needle core not found' % ci)
        n += 1
        I = Interp(m, F, E, SearchHooks(m, 'char'))
        st = State()
        st.rng['hsize'] = (0, MAXLEN)
        st.rng['nsize'] = (1, MAXLEN)             # precondition established by R07.1 / R09.1
        st.objs['HAY'] = Obj('ext', Lin.atom('hsize'))
        st.objs['NEEDLE'] = Obj('ext', Lin.atom('nsize'))
        hs, ns = Lin.atom('hsize'), Lin.atom('nsize')
        outs = I.run(I.start(f, [PtrV('HAY'), IntV(64, hs, 'u'), PtrV('NEEDLE'), IntV(64, ns, 'u')], st))
        p2, p3, und = [], [], []
        confirmed = {}
        nb = nfound = nnull = 0
        # the rule reads an iteration as: look for the first unit, compare at the hit, resume behind it.  A loop that is rotated
        # (compares the candidate found earlier, then looks for the next one at the bottom) states the same facts across the
        # back edge; that form is not analysed
        rotated = False
        for o in outs:
            if o.kind != 'backedge':
                continue
            b, e, evs, hdr = loop_view(o, f)
            ks = [k for k, x in enumerate(evs) if x[0] == 'search']
            kc = [k for k, x in enumerate(evs) if x[0] == 'cmp']
            if ks and kc and kc[0] < ks[0]:
                rotated = True
        if rotated:
            und.append('the scan loop compares first and looks for the next candidate afterwards (rotated form): its step facts are not analysed')
            verdict(run, 'R07.2', f, [], und, '', 'needle core')
            verdict(run, 'R07.3', f, [], und, '', 'needle core')
            continue
        for o in outs:
            s2 = o.st
            b, e, evs, hdr = loop_view(o, f)
            se = [x for x in evs if x[0] == 'search']
            cm = [x for x in evs if x[0] == 'cmp']
            cur = [(nm, v) for nm, v in b.items() if isinstance(v, PtrV) and v.obj == 'HAY']
            if len(cur) != 1:
                und.append('scan cursor not tracked')
                continue
            nm, bv = cur[0]
            hit = s2.flags.get('match')
            for x in se:
                if x[7] != 'char' or x[6] != 'c' + ci:
                    p2.append('the first unit is searched with find_%s (%s)' % (x[6], x[7]))
                if not (isinstance(x[2], PtrV) and x[2].obj == 'HAY' and x[3] is not None):
                    p2.append('the character search is not over the haystack')
                elif not (s2.is_eq0(x[2].off - bv.off) is True and s2.is_eq0(x[2].off + x[3] - hs) is True):
                    d = [x[2].off - bv.off, x[2].off + x[3] - hs]
                    env = s2.find_model(d, lambda v: v[0] != 0 or v[1] != 0) if robust(d) else None
                    if env is not None:
                        p2.append('the character search does not cover [cursor, end of the haystack); witness %s' % own.fmt_env(env))
                    else:
                        und.append('the character search is not decided to cover [cursor, end of the haystack)')
                lv = x[4]
                ok = isinstance(lv, IntV) and any(a == 'NEEDLE.0' or (isinstance(a, tuple) and a[0] == 'load' and a[1] == 'NEEDLE' and isinstance(a[2], Lin) and
                                                                      not a[2].t and a[2].c == 0) for a in lv.lin.atoms())
                if not ok:
                    und.append('unit searched for is not recognised as needle[0]')
            for x in cm:
                a, b2, cn = x[2], x[3], x[4]
                if not (isinstance(a, PtrV) and a.obj == 'HAY' and hit is not None and s2.is_eq0(a.off - hit[1]) is True):
                    p2.append('the comparison is not at the position of the character hit')
                if not (isinstance(b2, PtrV) and b2.obj == 'NEEDLE' and s2.is_eq0(b2.off) is True and cn is not None and s2.is_eq0(cn - ns) is True):
                    p2.append('the comparison is not against (needle, needle_size)')
                if isinstance(a, PtrV) and cn is not None and s2.is_ge0(hs - a.off - cn) is not True:
                    env = s2.find_model([hs - a.off - cn], lambda v: v[0] < 0)
                    if env is not None:
                        p2.append('a candidate that does not fit is compared: reads %r units at offset %r of %r; witness %s' % (cn, a.off, hs, own.fmt_env(env)))
                    else:
                        und.append('fit of the compared candidate not decided')
                if x[5] != 'c' + ci:
                    p2.append('find_c%s compares with compare_%s' % (ci, x[5]))
            if o.kind == 'backedge':
                if not se:
                    continue            # an inner loop of the function, not the scan
                nb += 1
                if len(se) != 1 or hit is None:
                    und.append('iteration with %d character searches' % len(se))
                    continue
                ev2 = e.get(nm)
                step = (ev2.off - hit[1]) if isinstance(ev2, PtrV) else None
                if step is None:
                    und.append('cursor after the iteration not tracked')
                elif s2.is_eq0(step - 1) is not True:
                    env = s2.find_model([step], lambda v: v[0] != 1)
                    tabled = any(isinstance(a, tuple) and a[0] in ('load', 'tbl') and a[1] not in ('HAY', 'NEEDLE') for a in step.atoms())
                    if tabled:
                        und.append('resume step %r comes from a table: skipping by a failure function is not decided' % (step,))
                    elif (env is not None or s2.is_eq0(step - 1) is False) and robust([step]):
                        p3.append('after rejecting the candidate at the hit the scan resumes %r units later, not 1, without a failure table: '
                                  'candidates in between are never compared%s' % (step, '; witness ' + own.fmt_env(env) if env else ''))
                    elif env is not None or not robust([step]):
                        # seen (or not excluded) in the abstraction of an arbitrary iteration: confirm on exactly interpreted first iterations
                        def scene(I2, st2):
                            st2.rng['hsize'] = (0, MAXLEN)
                            st2.rng['nsize'] = (1, MAXLEN)
                            st2.objs['HAY'] = Obj('ext', Lin.atom('hsize'))
                            st2.objs['NEEDLE'] = Obj('ext', Lin.atom('nsize'))
                            return [PtrV('HAY'), IntV(64, Lin.atom('hsize'), 'u'), PtrV('NEEDLE'), IntV(64, Lin.atom('nsize'), 'u')]
                        txt = exact_resume(m, F, E, f, scene, 'char', lambda hit_ev: Lin.const(1)) if 'x' not in confirmed else confirmed['x']
                        confirmed['x'] = txt
                        if txt:
                            p3.append('the scan does not resume one unit after a rejected candidate (no failure table): ' + txt)
                        else:
                            und.append('resume step %r possible in the loop abstraction, not confirmed on an exact path' % (step,))
                    else:
                        und.append('resume step %r not decided' % (step,))
                if len(cm) != 1:
                    und.append('iteration with %d calls of the prefix comparison' % len(cm))
                elif s2.flags.get('cmpres') != 'ne':
                    p2.append('the scan continues although the comparison returned 0')
            elif o.kind == 'ret':
                v = o.val
                if isinstance(v, PtrV) and v.obj == 'HAY':
                    nfound += 1
                    if hit is None or s2.is_eq0(v.off - hit[1]) is not True:
                        p2.append('returns %r, not the position of the candidate' % (v.off,))
                    elif len(cm) != 1:
                        und.append('result not tied to one call of the prefix comparison')
                    elif s2.flags.get('cmpres') != 'eq':
                        p2.append('returns a position whose comparison with the needle did not return 0')
                elif isinstance(v, PtrV) and v.obj is None:
                    nnull += 1
                    if hit is not None and len(se) == 1:
                        over = hit[1] + ns - hs
                        if s2.is_ge0(over - 1) is not True:
                            env = s2.find_model([over], lambda v2: v2[0] <= 0)
                            if env is not None or s2.is_ge0(-over) is True:
                                p2.append('gives up although the candidate at the hit still fits (hit + needle_size <= end)%s' % ('; witness ' + own.fmt_env(env) if env else ''))
                            else:
                                und.append('tightness of the give-up test not decided')
                else:
                    und.append('return value not tracked')
            elif o.kind == 'abort':
                p2.append('aborts')
        if nb == 0 or nfound == 0 or nnull == 0:
            und.append('scan not explored (%d back edges, %d found, %d null)' % (nb, nfound, nnull))
        verdict(run, 'R07.2', f, p2, und, 'compares (hit, needle, needle_size) only when it fits; gives up only when it does not; result has comparison 0', 'needle core')
        verdict(run, 'R07.3', f, p3, und, 'resumes one unit after a rejected candidate', 'needle core')
        window_reads(run, m, F, E, f, ci)
    return n


def threshold_sizes(m, F, f, limit=64):
    """Needle sizes worth an exact run: 1, 2, 3 and c, c + 1 for every small constant c that an integer comparison, a select or a
    min / max call in the core or in a library function reachable from it mentions (a scratch capacity, a block size)."""
    out = set([1, 2, 3])
    fns = [f] + [m.func(t) for t in F.reachable_from([f.name]) if m.has(t) and t != f.name and m.is_lib(m.func(t))]
    for g in fns:
        for i in g.all_insts():
            if i.op in ('icmp', 'select', 'call', 'invoke', 'store', 'alloca'):
                def walk(a):
                    if isinstance(a, (list, tuple)):
                        if len(a) >= 2 and a[0] == 'i' and isinstance(a[1], int):
                            if 4 <= a[1] < limit:
                                out.add(a[1])
                                out.add(a[1] + 1)
                        else:
                            for x in a:
                                walk(x)
                walk(i.a)
    return sorted(out)


def window_reads(run, m, F, E, f, ci):
    """R07.6: a position is reported as an occurrence only after every unit of the window [position, position + |needle|) was
    looked at.  The core is interpreted exactly (no loop abstraction) for a haystack that is exactly one window long, for the needle
    sizes of threshold_sizes(); on a path that returns the position, the haystack units read - by the character search at its hit, by
    the comparison primitives over their range, by loads of the core or its helpers - must cover the window.  A unit never read
    cannot influence the answer: a haystack that differs from the needle only there is reported as an occurrence."""
    probs, und, nruns, nfound = [], [], 0, 0
    for ns in threshold_sizes(m, F, f, limit=300 if run.tier == 'thorough' else 64):
        class XH(SearchHooks):
            unroll = ns + 3
            widen_on_entry = False
            max_paths = 3000
            split_sign = False              # (which units are read does not depend on their sign; splitting would fork 2^n paths)

            def on_access(self, I, st, inst, kind, p, nbytes):
                if kind == 'load' and isinstance(p, PtrV) and p.obj == 'HAY':
                    st.ev('hay-load', inst, p.off, nbytes)

            def call(self, I, st, inst, name, args):
                d = self.m.dem(name) if name is not None else ''
                if re.match(r'^_ST_PRIVATE::cl_fast_(lower|upper)\(char\)', d):
                    # the folded unit as a symbol (which units were *read* is all this pass asks; folding per unit would fork 2^n paths)
                    return [(st, I.fresh_int(st, 8, 'folded'))]
                return SearchHooks.call(self, I, st, inst, name, args)
        I = Interp(m, F, E, XH(m, 'char'))
        st = State()
        st.objs['HAY'] = Obj('ext', Lin.const(ns))
        st.objs['NEEDLE'] = Obj('ext', Lin.const(ns))
        try:
            outs = I.run(I.start(f, [PtrV('HAY'), IntV(64, Lin.const(ns), 'u'), PtrV('NEEDLE'), IntV(64, Lin.const(ns), 'u')], st))
        except Exception as e:
            und.append('needle size %d: not interpreted exactly (%s)' % (ns, str(e)[:60]))
            continue
        nruns += 1
        for o in outs:
            s2 = o.st
            v = o.val
            if o.kind != 'ret' or not (isinstance(v, PtrV) and v.obj == 'HAY'):
                continue
            if any(e[0] == 'widen' for e in s2.events):
                und.append('needle size %d: a loop was abstracted on a path that reports an occurrence' % ns)
                continue
            plo, phi = s2.range(v.off)
            if plo != phi:
                und.append('needle size %d: reported position not constant' % ns)
                continue
            nfound += 1
            pos = plo
            seen = set()
            exact = True
            for e in s2.events:
                if e[0] == 'hit' and e[2] == 'HAY':
                    if not e[3].t:
                        seen.add(e[3].c)
                    else:
                        k0 = s2.range(e[3])
                        if k0[0] == k0[1]:
                            seen.add(k0[0])
                        else:
                            exact = False
                elif e[0] == 'cmp' and isinstance(e[2], PtrV) and e[2].obj == 'HAY' and e[4] is not None:
                    (a0, a1), (n0, n1) = s2.range(e[2].off), s2.range(e[4])
                    if a0 == a1 and n0 == n1:
                        seen |= set(range(a0, a0 + n0))
                    else:
                        exact = False
                elif e[0] == 'hay-load':
                    a0, a1 = s2.range(e[2])
                    if a0 == a1:
                        seen |= set(range(a0, a0 + e[3]))
                    else:
                        exact = False
            if not exact:
                und.append('needle size %d: a read of the haystack at a position that is not constant on an exact path' % ns)
                continue
            blind = [k for k in range(pos, pos + ns) if k not in seen]
            if blind:
                probs.append('for a needle of %d units the position %d is reported as an occurrence on a path that never looks at unit %d of the '
                             'window: a haystack that differs from the needle only there is reported as a match (witness: needle_size = size = %d, '
                             'the two texts differing in unit %d only)' % (ns, pos, blind[0] - pos, ns, blind[0] - pos))
                break
        if probs:
            break
    if nfound == 0 and not probs:
        und.append('no exact path reports an occurrence')
    verdict(run, 'R07.6', f, probs, und, 'every unit of the reported window is read before an occurrence is reported (%d needle sizes interpreted exactly)' % nruns,
            'window coverage')


def backward_cores(run, m, F, E, L):
    n = 0
    for dem, form in (('ST::string::_find_last(unsigned long, char const*, unsigned long, ST::case_sensitivity_t) const', 'needle'),
                      ('ST::string::find_last(unsigned long, char, ST::case_sensitivity_t) const', 'char')):
        f = find_fn(m, F, dem)
        run.need(f is not None, '%s not found' % dem)
        n += 1
        I = Interp(m, F, E, SearchHooks(m, 'needle'))
        st = State()
        this, ret, entry = string_scene(I, st, L, 'large', with_ret=False)
        mx = I.fresh_int(st, 64, 'max')
        cs = I.fresh_int(st, 32, 'cs', hi=1)
        if form == 'needle':
            st.rng['nsize'] = (1, MAXLEN)
            st.objs['NEEDLE'] = Obj('ext', Lin.atom('nsize'))
            nl = Lin.atom('nsize')
            args = [PtrV(this), mx, PtrV('NEEDLE'), IntV(64, nl, 'u'), cs]
        else:
            nl = Lin.const(1)
            args = [PtrV(this), mx, I.fresh_int(st, 8, 'ch'), cs]
        outs = I.run(I.start(f, args, st))
        s = entry['size']
        sto = entry['storage']
        p3, und = [], []
        nb = nr = 0
        for o in outs:
            s2 = o.st
            b, e, evs, hdr = loop_view(o, f)
            se = [x for x in evs if x[0] == 'search']
            m_u = I.as_u(s2, mx)
            lim = s if s2.is_ge0(m_u - s) is True else (m_u if s2.is_ge0(s - m_u) is True else None)
            for x in se:
                if x[7] != form:
                    p3.append('searches with the %s form' % x[7])
                hay, hl = x[2], x[3]
                if not (isinstance(hay, PtrV) and hay.obj == sto.obj and hl is not None):
                    und.append('search window not tracked')
                    continue
                if lim is None:
                    und.append('limit not decided on this path')
                elif s2.is_eq0(hay.off + hl - sto.off - lim) is not True:
                    d = hay.off + hl - sto.off - lim
                    env = s2.find_model([d], lambda v: v[0] != 0) if robust([d]) else None
                    if env is not None:
                        p3.append('the search window ends at offset %r, not at min(max, size); witness %s' % (hay.off + hl - sto.off, own.fmt_env(env)))
                    else:
                        und.append('end of the search window not decided to be min(max, size)')
                if s2.is_ge0(hay.off - sto.off) is not True or s2.is_ge0(hl) is not True:
                    und.append('the search window is not decided to start inside the string')
                if form == 'needle' and not (isinstance(x[4], PtrV) and x[4].obj == 'NEEDLE' and s2.is_eq0(x[4].off) is True and s2.is_eq0(x[5] - nl) is True):
                    p3.append('the search is not for (substr, count)')
            # a comparison made directly on the text (a scan written out instead of a search core): the compared range lies inside
            # the text and its terminator - a range that begins in front of the text, or ends beyond the terminator, is an
            # out-of-bounds read whatever the answer then is.  Findings only with a model of the inputs (a carried cursor counts
            # through its first-iteration value).
            for x in s2.events:
                if x[0] != 'cmp' or x[4] is None:
                    continue
                for pv in (x[2], x[3]):
                    if not (isinstance(pv, PtrV) and pv.obj == sto.obj):
                        continue
                    rel = pv.off - sto.off
                    for d, what in ((-rel - 1, 'begins in front of the text'), (rel + x[4] - s - 2, 'ends beyond the terminator of the text')):
                        if s2.is_ge0(-d - 1) is True:
                            continue
                        env = s2.find_model([d, x[4]], lambda v: v[0] >= 0 and v[1] >= 1)
                        if env is not None:
                            msg = ('the comparison at line %d covers %r unit(s) at offset %r of the text (size %r): the range %s; witness %s' %
                                   (x[1].line, x[4], rel, s, what, own.fmt_env(env)))
                            if not any(q.startswith('the comparison at line %d ' % x[1].line) for q in p3):
                                p3.append(msg)
            mt = s2.flags.get('match')
            if o.kind == 'backedge':
                nb += 1
                if len(se) != 1 or mt is None:
                    und.append('iteration with %d searches' % len(se))
                    continue
                curs = [(nm, v, e.get(nm)) for nm, v in b.items() if isinstance(e.get(nm), PtrV) and e.get(nm).obj == sto.obj]
                start = [c for c in curs if isinstance(c[1], PtrV) and c[1].obj == sto.obj and s2.is_eq0(se[0][2].off - c[1].off) is True]
                if len(start) != 1:
                    und.append('scan cursor not tracked')
                    continue
                step = start[0][2].off - mt[1]
                if s2.is_eq0(step - 1) is not True:
                    env = s2.find_model([step], lambda v: v[0] != 1) if robust([step]) else None
                    if env is not None or (s2.is_eq0(step - 1) is False and robust([step])):
                        p3.append('after a match the backward scan resumes %r units later, not 1: an overlapping later occurrence is missed%s' %
                                  (step, '; witness ' + own.fmt_env(env) if env else ''))
                    else:
                        und.append('resume step not decided')
                found = [c for c in curs if c[0] != start[0][0] and s2.is_eq0(c[2].off - mt[1]) is True]
                # ... or remembered as an index (match - c_str()) in a carried integer
                ints = [(nm, v, e.get(nm)) for nm, v in b.items() if isinstance(v, IntV) and isinstance(e.get(nm), IntV)]
                found += [c for c in ints if I.as_s(s2, c[2]) is not None and s2.is_eq0(I.as_s(s2, c[2]) - (mt[1] - sto.off)) is True]
                if not found:
                    # a finding only if nothing the loop carries changes with the match besides the scan cursor itself
                    others = [c for c in curs if c[0] != start[0][0] and not (isinstance(c[1], PtrV) and s2.is_eq0(c[2].off - c[1].off) is True)]
                    others += [c for c in ints if I.as_s(s2, c[2]) is None or I.as_s(s2, c[1]) is None or s2.is_eq0(I.as_s(s2, c[2]) - I.as_s(s2, c[1])) is not True]
                    if not others:
                        p3.append('the match of an iteration is not remembered: nothing but the scan cursor changes when an occurrence is found')
                    else:
                        und.append('how the match of an iteration is remembered is not recognised')
            elif o.kind == 'ret':
                nr += 1
                v = o.val
                if not isinstance(v, IntV):
                    und.append('return value not tracked')
                    continue
                vl = I.as_s(s2, v)
                if s2.is_eq0(vl + 1) is True:
                    continue
                # a result taken over from a delegated search (the function calling itself, or find_last calling _find_last) answers
                # the caller's question only if the delegate was asked the same question: same limit, needle, length and case mode
                me = [x for x in s2.events if x[0] == 'member']
                idxv = s2.flags.get('idx')
                if me and isinstance(idxv, IntV) and s2.is_eq0(vl - idxv.lin) is True and me[-1][2].split('(')[0] == f.dem.split('(')[0]:
                    dargs = me[-1][3]
                    names = ['this', 'limit', 'needle', 'length', 'case mode'] if form == 'needle' else ['this', 'limit', 'character', 'case mode']
                    for k2, (own_a, del_a) in enumerate(zip(args, dargs)):
                        if isinstance(own_a, IntV) and isinstance(del_a, IntV):
                            ou, du = I.as_u(s2, own_a), I.as_u(s2, del_a)
                            if ou is None or du is None or s2.is_eq0(ou - du) is True:
                                continue
                            env = s2.find_model([ou - du], lambda w: w[0] != 0)
                            if env is not None:
                                p3.append('returns the answer of a delegated search that was asked with another %s (%r instead of %r); witness %s' % (
                                    names[k2] if k2 < len(names) else 'argument', del_a, own_a, own.fmt_env(env)))
                            else:
                                und.append('delegated search with a %s not decided equal to the caller\'s' % (names[k2] if k2 < len(names) else 'argument'))
                        elif isinstance(own_a, PtrV) and isinstance(del_a, PtrV):
                            if not (own_a.obj == del_a.obj and s2.is_eq0(own_a.off - del_a.off) is True):
                                und.append('delegated search on another %s' % (names[k2] if k2 < len(names) else 'argument'))
                    continue
                # a non-negative result is (remembered pointer - c_str())
                base = Lin.atom('addr:' + sto.obj) + sto.off
                ptrs = [bv for nm, bv in b.items() if isinstance(bv, PtrV) and bv.obj is not None and
                        (s2.is_eq0(vl - (bv.off - sto.off)) is True if bv.obj == sto.obj else
                         s2.is_eq0(vl - (Lin.atom('addr:' + bv.obj) + bv.off - base)) is True)]
                if mt is not None and s2.is_eq0(vl - (mt[1] - sto.off)) is True:
                    continue
                if not ptrs:
                    und.append('result %r not recognised as the remembered match' % (vl,))
            elif o.kind == 'abort':
                p3.append('aborts')
        if nb == 0 or nr == 0:
            und.append('backward scan not explored')
        verdict(run, 'R07.3', f, p3, und, 'window [cursor, min(max,size)); resumes at match + 1; remembers the latest match', 'backward core')
    return n


# ------------------------------------------------------------------------------------------------ front ends

def make_needle(I, st, L, form):
    """(argument values, expected core needle pointer (obj, off), expected length term, null-able?)"""
    if form == 'char':
        ch = I.fresh_int(st, 8, 'ch')
        return [ch], None, Lin.const(1)
    if form in ('cstr', 'cstr8'):
        st.rng['nlen'] = (0, MAXLEN)
        o = Obj('ext', Lin.atom('nlen') + 1)
        o.attrs['cstr_len'] = Lin.atom('nlen')
        st.objs['NEEDLE'] = o
        return [PtrV('NEEDLE')], ('NEEDLE', ZERO), Lin.atom('nlen')
    if form in ('ptrlen', 'ptrlen8'):
        st.rng['ncount'] = (0, (1 << 64) - 1)
        st.objs['NEEDLE'] = Obj('ext', Lin.atom('ncount'))
        return [PtrV('NEEDLE'), IntV(64, Lin.atom('ncount'), 'u')], ('NEEDLE', ZERO), Lin.atom('ncount')
    if form == 'string':
        no = own.make_buffer(I, st, L, 'needle', 'large')
        st.rng['size(needle)'] = (0, MAXLEN)
        e = st.flags['entry:needle']
        return [PtrV(no)], (e['storage'].obj, e['storage'].off), e['size']
    raise ValueError(form)


FORMS = {'char': 'char', 'char const*': 'cstr', 'char8_t const*': 'cstr8', 'ST::string const&': 'string'}


def parse_sig(dem):
    """('find'|'find_last'|'contains', has_pos, needle form) of a member signature"""
    mt = re.match(r'^ST::string::(find|find_last|contains)\((.*)\) const$', dem)
    if not mt:
        return None
    ps = [p.strip() for p in mt.group(2).split(',')]
    if ps[-1] != 'ST::case_sensitivity_t':
        return None
    ps = ps[:-1]
    has_pos = ps[0] == 'unsigned long'
    if has_pos:
        ps = ps[1:]
    if len(ps) == 2 and ps[1] == 'unsigned long' and ps[0] in ('char const*', 'char8_t const*'):
        form = 'ptrlen' if ps[0] == 'char const*' else 'ptrlen8'
    elif len(ps) == 1 and ps[0] in FORMS:
        form = FORMS[ps[0]]
    else:
        return None
    return mt.group(1), has_pos, form


def front_ends(run, m, F, E, L):
    """Every find / find_last overload, interpreted down to the cores (forward: needle / char cores; backward: _find_last and the
    find_last(max, char) loop, whose own obligations are R07.3)."""
    n = 0
    for name in sorted(F.lib):
        f = m.func(name)
        sig = parse_sig(f.dem)
        if sig is None or sig[0] == 'contains':
            continue
        which, has_pos, form = sig
        if which == 'find_last' and has_pos and form == 'char':
            continue        # the backward character loop itself (R07.3)
        n += 1
        I = Interp(m, F, E, SearchHooks(m, 'needle'))
        st = State()
        this, ret, entry = string_scene(I, st, L, 'large', with_ret=False)
        s = entry['size']
        sto = entry['storage']
        args = [PtrV(this)]
        pos = None
        if has_pos:
            pos = I.fresh_int(st, 64, 'start' if which == 'find' else 'max')
            args.append(pos)
        nargs, nptr, nlen = make_needle(I, st, L, form)
        args += nargs
        args.append(I.fresh_int(st, 32, 'cs', hi=1))
        if which == 'find_last' and form == 'char':
            # forwards to the backward character loop: interpret with members as symbols
            I = Interp(m, F, E, SearchHooks(m, 'member', own_name=name))
        outs = I.run(I.start(f, args, st))
        p1, p4, und = [], [], []
        nsearch = nskip = 0
        for o in outs:
            s2 = o.st
            if o.kind == 'abort':
                p1.append('aborts')
                continue
            if o.kind != 'ret':
                continue
            v = o.val
            vl = I.as_s(s2, v) if isinstance(v, IntV) else None
            posl = I.as_u(s2, pos) if pos is not None else (ZERO if which == 'find' else Lin.const(SIZE_MAX))
            se = [x for x in s2.events if x[0] == 'search']
            me = [x for x in s2.events if x[0] == 'member']
            for x in s2.events:
                if x[0] in ('oob', 'oob?') and isinstance(x[3], PtrV) and x[3].obj in (sto.obj, 'NEEDLE'):
                    env = x[6] if len(x) > 6 else None
                    if x[0] == 'oob' or env is not None:
                        p1.append('reads %s at offset %r (line %d)%s' % ('the string' if x[3].obj == sto.obj else 'the needle', x[3].off, x[1].line,
                                                                          '; witness ' + own.fmt_env(env) if env else ''))
            if len(se) + len(me) > 1:
                und.append('%d core calls on one path' % (len(se) + len(me)))
                continue
            if se:
                nsearch += 1
                x = se[0]
                hay, hl = x[2], x[3]
                if not (isinstance(hay, PtrV) and hay.obj == sto.obj and hl is not None):
                    p1.append('the haystack handed to the core is not the string')
                    continue
                bad = None
                if s2.is_eq0(hay.off - sto.off - posl) is not True:
                    bad = 'starts at offset %r, not at start' % (hay.off - sto.off,)
                elif s2.is_eq0(hl - (s - posl)) is not True:
                    bad = 'covers %r units, not size - start' % (hl,)
                elif s2.is_ge0(s - posl - 1) is not True:
                    bad = 'is searched although start >= size is possible'
                if bad:
                    env = s2.find_model([hay.off - sto.off - posl, hl - (s - posl), s - posl - 1], lambda v2: v2[0] != 0 or v2[1] != 0 or v2[2] < 0)
                    if env is not None:
                        p1.append('the window handed to the core %s; witness %s' % (bad, own.fmt_env(env)))
                    else:
                        und.append('window handed to the core not decided: %s' % bad)
                # needle
                if x[7] != ('char' if form == 'char' else 'needle'):
                    p4.append('%s needle reaches the %s core' % (form, x[7]))
                elif form == 'char':
                    if not (isinstance(x[4], IntV) and isinstance(nargs[0], IntV) and s2.is_eq0(x[4].lin - nargs[0].lin) is True):
                        p4.append('the character handed to the core is not the argument')
                else:
                    np_, nn = x[4], x[5]
                    if not (isinstance(np_, PtrV) and np_.obj == nptr[0] and s2.is_eq0(np_.off - nptr[1]) is True):
                        p4.append('the needle pointer handed to the core is not the argument\'s text')
                    if s2.is_eq0(nn - nlen) is not True:
                        env = s2.find_model([nn - nlen], lambda v2: v2[0] != 0)
                        p4.append('the needle length handed to the core is %r, the needle is %r long%s' % (nn, nlen, '; witness ' + own.fmt_env(env) if env else ''))
                    if s2.is_ge0(nn - 1) is not True:
                        env = s2.find_model([nn], lambda v2: v2[0] <= 0)
                        if env is not None:
                            p1.append('the core is called with an empty needle; witness %s' % own.fmt_env(env))
                        else:
                            und.append('needle length not decided positive')
                mt = s2.flags.get('match')
                if vl is None:
                    und.append('return value not tracked')
                elif mt is None:
                    if s2.is_eq0(vl + 1) is not True:
                        p1.append('no match: returns %r, not -1' % (vl,))
                elif s2.is_eq0(vl - (mt[1] - sto.off)) is not True:
                    p1.append('match at offset m: returns %r, not m' % (vl,))
            elif me:
                nsearch += 1
                x = me[0]
                cargs = x[3]
                cd = x[2]
                csig = parse_sig(cd)
                # expected: (this, max|start, needle..., cs) with the needle expanded for ST::string
                if cd.startswith('ST::string::_find_last('):
                    exp_form = 'ptrlen'
                elif csig is not None:
                    exp_form = csig[2]
                else:
                    und.append('callee %s not recognised' % cd.split('(')[0])
                    continue
                if csig is not None and csig[0] != which:
                    p4.append('%s forwards to %s' % (which, csig[0]))
                ca = list(cargs[1:])
                if not (isinstance(cargs[0], PtrV) and cargs[0].obj == this):
                    p4.append('forwards to a different string object')
                if cd.startswith('ST::string::_find_last(') or (csig is not None and csig[1]):
                    cp = ca.pop(0)
                    if not (isinstance(cp, IntV) and s2.is_eq0(I.as_u(s2, cp) - posl) is True):
                        p4.append('%s handed on is %r, expected %r' % ('start' if which == 'find' else 'max', cp, posl))
                elif pos is not None:
                    p4.append('the position argument is dropped')
                if exp_form == 'char':
                    if not (form == 'char' and isinstance(ca[0], IntV) and s2.is_eq0(ca[0].lin - nargs[0].lin) is True):
                        p4.append('the character handed on is not the argument')
                elif exp_form in ('cstr', 'cstr8'):
                    if not (form in ('cstr', 'cstr8') and isinstance(ca[0], PtrV) and ca[0].obj == nptr[0] and s2.is_eq0(ca[0].off - nptr[1]) is True):
                        p4.append('the needle pointer handed on is not the argument')
                elif exp_form in ('ptrlen', 'ptrlen8'):
                    okp = isinstance(ca[0], PtrV) and nptr is not None and ca[0].obj == nptr[0] and s2.is_eq0(ca[0].off - nptr[1]) is True
                    okn = isinstance(ca[1], IntV) and s2.is_eq0(I.as_u(s2, ca[1]) - nlen) is True
                    if not okp:
                        p4.append('the needle pointer handed on is not the argument\'s text')
                    if not okn:
                        env = s2.find_model([I.as_u(s2, ca[1]) - nlen], lambda v2: v2[0] != 0) if isinstance(ca[1], IntV) else None
                        p4.append('the needle length handed on is %r, the needle is %r long%s' % (ca[1], nlen, '; witness ' + own.fmt_env(env) if env else ''))
                    if cd.startswith('ST::string::_find_last(') and isinstance(ca[1], IntV) and s2.is_ge0(I.as_u(s2, ca[1]) - 1) is not True:
                        env = s2.find_model([I.as_u(s2, ca[1])], lambda v2: v2[0] <= 0)
                        if env is not None:
                            p1.append('the backward core is called with an empty needle; witness %s' % own.fmt_env(env))
                elif exp_form == 'string':
                    if not (form == 'string' and isinstance(ca[0], PtrV) and ca[0].obj == nargs[0].obj):
                        p4.append('the needle string handed on is not the argument')
                idx = s2.flags.get('idx')
                if vl is None or idx is None or s2.is_eq0(vl - idx.lin) is not True:
                    p4.append('the result of the callee is not returned unchanged')
            else:
                nskip += 1
                if vl is None or s2.is_eq0(vl + 1) is not True:
                    p1.append('returns %r without searching' % (vl,))
                    continue
                # excuse: empty / null needle, start >= size (find), empty string (find_last)
                excuses = []
                if form != 'char':
                    excuses.append(s2.is_eq0(nlen) is True)
                    excuses.append(any(x2[0] == 'null-needle' for x2 in s2.events))
                if which == 'find':
                    excuses.append(s2.is_ge0(posl - s) is True)
                else:
                    excuses.append(s2.is_eq0(s) is True)
                nl1 = nlen if form != 'char' else Lin.const(1)
                room = (s - posl) if which == 'find' else s
                excuses.append(s2.is_ge0(nl1 - room - 1) is True)        # the needle cannot fit in the window
                if not any(excuses):
                    env = s2.find_model([nl1, room], lambda v2: v2[0] >= 1 and v2[1] >= v2[0])
                    if env is not None:
                        p1.append('returns -1 without searching although the needle is not empty and fits into %s; witness %s' %
                                  ('[start, size)' if which == 'find' else 'the string', own.fmt_env(env)))
                    else:
                        und.append('reason for returning -1 without a search not decided')
        if nsearch == 0:
            und.append('no path reaches a core')
        verdict(run, 'R07.1', f, p1, und, 'window [start,size) / result match-c_str() or -1 / -1 without search only for empty needle or start>=size', form)
        verdict(run, 'R07.4', f, p4, und, 'needle reaches the core as (pointer, length) of the argument', form)
    return n


def contains(run, m, F, E, L):
    n = 0
    for name in sorted(F.lib):
        f = m.func(name)
        sig = parse_sig(f.dem)
        if sig is None or sig[0] != 'contains':
            continue
        n += 1
        which, has_pos, form = sig
        I = Interp(m, F, E, SearchHooks(m, 'member', own_name=name))
        st = State()
        this, ret, entry = string_scene(I, st, L, 'large', with_ret=False)
        nargs, nptr, nlen = make_needle(I, st, L, form)
        cs = I.fresh_int(st, 32, 'cs', hi=1)
        outs = I.run(I.start(f, [PtrV(this)] + nargs + [cs], st))
        probs, und = [], []
        for o in outs:
            if o.kind != 'ret':
                if o.kind == 'abort':
                    probs.append('aborts')
                continue
            s2 = o.st
            me = [x for x in s2.events if x[0] == 'member']
            idx = s2.flags.get('idx')
            if len(me) != 1 or idx is None:
                und.append('not of the form find(...) >= 0')
                continue
            csig = parse_sig(me[0][2])
            if csig is None or csig[0] not in ('find', 'find_last'):
                und.append('contains(%s) asks %s: not a search of this string that the rule knows' % (form, me[0][2].split(' const')[0]))
                continue
            ca = list(me[0][3])
            # any find / find_last overload answers "is there an occurrence" when it is asked about the whole string and the same
            # needle and case mode: the arguments of contains must all arrive, a position must be the neutral one
            exp = nargs + [cs]
            rest = ca[1:]
            if not (isinstance(ca[0], PtrV) and ca[0].obj == this):
                probs.append('the search is not on *this')
                continue
            if csig[1]:
                pos, rest = rest[0], rest[1:]
                if csig[0] == 'find':
                    if not (isinstance(pos, IntV) and s2.is_eq0(pos.lin) is True):
                        if isinstance(pos, IntV) and not pos.lin.t:
                            probs.append('contains searches from position %d, not from the start' % pos.lin.c)
                        else:
                            und.append('start position handed to find not decided to be 0')
                        continue
                else:
                    und.append('contains through find_last with a limit: not analysed')
                    continue
            same = len(rest) == len(exp)
            for a, b in zip(rest, exp):
                if isinstance(a, PtrV) and isinstance(b, PtrV):
                    same = same and a.obj == b.obj and s2.is_eq0(a.off - b.off) is True
                elif isinstance(a, IntV) and isinstance(b, IntV):
                    same = same and s2.is_eq0(a.lin - b.lin) is True
                else:
                    same = False
            if not same:
                und.append('the needle / case mode are not recognisably passed through to the search unchanged')
                continue
            v = o.val
            for truth in (True, False):
                s3 = s2.clone()
                if isinstance(v, IntV) and not v.lin.t:
                    if bool(v.lin.c) != truth:
                        continue
                else:
                    c = I.cond_of(s3, v) if isinstance(v, IntV) else None
                    if c is None:
                        und.append('returned boolean not tracked')
                        break
                    if not I.assume(s3, c, truth):
                        continue
                want = s3.is_ge0(idx.lin)
                if want is None:
                    und.append('returned boolean not decided against find >= 0')
                elif want != truth:
                    probs.append('returns %s when find gives %s' % (truth, 'an index' if want else '-1'))
        verdict(run, 'R07.5', f, probs, und, 'find(same arguments) >= 0', form)
    return n


def affixes(run, m, F, E, L):
    n = 0
    for which in ('starts_with', 'ends_with'):
        for argty, form in (('ST::string const&', 'string'), ('char const*', 'cstr'), ('char8_t const*', 'cstr8')):
            f = find_fn(m, F, 'ST::string::%s(%s, ST::case_sensitivity_t) const' % (which, argty))
            run.need(f is not None, '%s(%s) not found' % (which, argty))
            n += 1
            I = Interp(m, F, E, SearchHooks(m, 'char'))
            st = State()
            this, ret, entry = string_scene(I, st, L, 'large', with_ret=False)
            s = entry['size']
            sto = entry['storage']
            nargs, nptr, nlen = make_needle(I, st, L, form)
            cs = I.fresh_int(st, 32, 'cs', hi=1)
            outs = I.run(I.start(f, [PtrV(this)] + nargs + [cs], st))
            probs, und = [], []
            ntrue = nfalse = 0
            for o in outs:
                if o.kind != 'ret':
                    if o.kind == 'abort':
                        probs.append('aborts')
                    continue
                s2 = o.st
                v = o.val
                cm = [x for x in s2.events if x[0] == 'cmp']
                off = ZERO if which == 'starts_with' else s - nlen

                def wrong_cmp(st3):
                    """The one comparison on the path is provably about something else: another place, another text, or a length for
                    which a model with length != |x| exists.  Anything in between is not decided."""
                    if len(cm) != 1:
                        return False
                    a, b, cn = cm[0][2], cm[0][3], cm[0][4]
                    if not (isinstance(a, PtrV) and a.obj == sto.obj and isinstance(b, PtrV) and b.obj == nptr[0]) or cn is None:
                        return True
                    # (the length may reach the primitive clamped by the member or by a helper: its equality with |x| on this path is
                    # not held against the code here; a wrong place or a wrong text is)
                    for d9 in (a.off - sto.off - off, b.off - nptr[1]):
                        if st3.is_eq0(d9) is True:
                            continue
                        if st3.is_eq0(d9) is False or st3.find_model([d9], lambda vv: vv[0] != 0) is not None:
                            return True
                    # the length: wrong only with a model of this path (|x| <= size included) in which fewer or more than |x| units
                    # are compared - a text re-measured up to an embedded NUL gives one, a size clamped to the string does not
                    dl = cn - nlen
                    if st3.is_eq0(dl) is not True:
                        s4 = st3.clone()
                        if s4.assume_ge0(s - nlen) and s4.find_model([dl, s - nlen], lambda vv: vv[0] != 0 and vv[1] >= 0) is not None:
                            return True
                    return False

                def good_cmp(st3):
                    for x in cm:
                        a, b, cn = x[2], x[3], x[4]
                        if isinstance(a, PtrV) and a.obj == sto.obj and st3.is_eq0(a.off - sto.off - off) is True and \
                                isinstance(b, PtrV) and b.obj == nptr[0] and st3.is_eq0(b.off - nptr[1]) is True and \
                                cn is not None and st3.is_eq0(cn - nlen) is True:
                            return True
                    return False
                for truth in (True, False):
                    s3 = s2.clone()
                    if isinstance(v, IntV) and not v.lin.t:
                        if bool(v.lin.c) != truth:
                            continue
                    else:
                        c = I.cond_of(s3, v) if isinstance(v, IntV) else None
                        if c is None:
                            und.append('returned boolean not tracked')
                            break
                        if not I.assume(s3, c, truth):
                            continue
                    fits = s3.is_ge0(s - nlen)
                    if truth:
                        ntrue += 1
                        if s3.is_eq0(nlen) is True and fits is True:
                            continue            # empty text: trivially true
                        if fits is not True:
                            probs.append('returns true although the text may be longer than the string')
                        elif not good_cmp(s3) and len(cm) == 1 and not wrong_cmp(s3):
                            und.append('returns true after a comparison whose range is not decided to be exactly the |x| units')
                        elif not (good_cmp(s3) and s3.flags.get('cmpres') == 'eq' and len(cm) == 1):
                            (probs if len(cm) == 1 else und).append('returns true without comparing exactly |x| units at offset %s%s' % (
                                '0' if which == 'starts_with' else 'size - |x|', '' if len(cm) == 1 else ' through one call of the comparison primitive (%d calls): not analysed' % len(cm)))
                    else:
                        nfalse += 1
                        if fits is False:
                            continue
                        if fits is None:
                            und.append('false path does not decide |x| <= size')
                        elif s3.is_eq0(nlen) is True:
                            probs.append('returns false for empty text')
                        elif not (good_cmp(s3) and s3.flags.get('cmpres') == 'ne' and len(cm) == 1) and len(cm) != 1:
                            und.append('returns false with |x| <= size after %d calls of the comparison primitive: not analysed' % len(cm))
                        elif not good_cmp(s3) and len(cm) == 1 and not wrong_cmp(s3):
                            und.append('returns false with |x| <= size after a comparison whose range is not decided to be exactly the |x| units')
                        elif isinstance(v, IntV) and v.lin.t and s3.find_model([v.lin, s, nlen], lambda vv: True) is None:
                            # (no model of this path in which every recorded comparison has its outcome: not a real execution)
                            und.append('a false path with |x| <= size that has no model consistent with its comparisons')
                        elif not (good_cmp(s3) and s3.flags.get('cmpres') == 'ne' and len(cm) == 1):
                            probs.append('returns false although |x| <= size, without a failed comparison of exactly |x| units at offset %s' %
                                         ('0' if which == 'starts_with' else 'size - |x|'))
            if ntrue == 0 or nfalse == 0:
                und.append('true/false paths: %d/%d' % (ntrue, nfalse))
            verdict(run, 'R07.5', f, probs, und, 'true iff |x| <= size and the |x| units at the %s compare equal' % ('start' if which == 'starts_with' else 'end'), form)
    return n


def check(run):
    m = run.module()
    F = run.facts()
    E = run.effects()
    run.trust('clang 14 lowering (LLVM IR, -O0, mem2reg)', 'STIR interpreter', 'memchr / memcmp (char_traits<char>::find / compare) as specified by the C standard',
              'C06 for compare_ci (folded three-way comparison of n units) and the ASCII fold')
    run.assume('"smallest / largest index" follows from the machine-checked step facts by induction over the scan: every position before the '
               'result was either not a hit of the character search or compared unequal; the induction is stated in DESIGN.md, not mechanised')
    L = own.buffer_layout(m, 'char')
    run.need(L is not None, 'layout of ST::buffer<char> not recognised')
    run.floor('character scan core', char_scan(run, m, F, E), 1)
    run.floor('needle scan cores', needle_cores(run, m, F, E), 2)
    run.floor('backward scan cores', backward_cores(run, m, F, E, L), 2)
    run.floor('find / find_last overloads', front_ends(run, m, F, E, L), 23)
    run.floor('contains overloads', contains(run, m, F, E, L), 6)
    run.floor('starts_with / ends_with overloads', affixes(run, m, F, E, L), 6)
    for o in run.obs[:8]:
        run.sample(dict(rule=o['rule'], subject=o['subject'], case=o['disc'], verdict=o['verdict'], detail=o['detail'][:160]))
